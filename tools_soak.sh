#!/bin/bash
# soak: every quick check under many VERIF_SEED values on the unchanged tree; prints only alarms
# usage: tools_soak.sh <first seed> <last seed> [tier]
cd "$(dirname "$0")"
tier=${3:-quick}
export VERIF_EVIDENCE_DIR=$(pwd)/soak_evidence VERIF_REPLAY_DIR=$(pwd)/soak_replays
mkdir -p $VERIF_EVIDENCE_DIR $VERIF_REPLAY_DIR
for s in $(seq $1 $2); do
  for p in C01 C02 C03 C04 C05 C06 C07 C08 C09 C10 C11 C13 C14 C15 C16 C19; do
    out=$(VERIF_SEED=$s ./check $p --tier $tier 2>&1); rc=$?
    if [ $rc -ne 0 ] || echo "$out" | grep -q -E "^(VIOLATION|HARNESS)"; then echo "ALARM seed=$s prop=$p rc=$rc"; echo "$out" | grep -v conda | grep -v KNOWN | cut -c1-400; fi
  done
  echo "seed $s done"
done
