#!/bin/bash
# usage: tools_eval_mutant.sh <dir with patch+demo> <patchfile> <demofile> <prop> [more props...]
# Verifies a seeded change independently (applies to a scratch copy of /repo HEAD, test suite unchanged,
# demo fails with / passes without) and runs the given checks against the changed copy.
d=$1; patch=$2; demo=$3; shift 3
tmp=$(mktemp -d /tmp/pjeval_XXXXXX)
trap 'rm -rf "$tmp"' EXIT
git -C /repo archive HEAD | tar -x -C "$tmp"
cd "$tmp"
base=$(PYTHONPATH=$tmp/src timeout 300 /venv/bin/python "$d/$demo" >/dev/null 2>&1; echo $?)
if ! patch -p1 -s < "$d/$patch" >/dev/null 2>&1; then echo "RESULT patch_applies=no"; exit 0; fi
tests=$(PYTHONPATH=$tmp/src timeout 600 /venv/bin/python -m pytest -q -p no:cacheprovider tests 2>&1 | tail -1)
withp=$(PYTHONPATH=$tmp/src timeout 300 /venv/bin/python "$d/$demo" >/dev/null 2>&1; echo $?)
echo "RESULT patch_applies=yes tests='$tests' demo_without=$base demo_with=$withp"
for p in "$@"; do
  out=$(cd /verif && PJPLAN_SRC=$tmp/src VERIF_EVIDENCE_DIR=$tmp/ev VERIF_REPLAY_DIR=$tmp/rp VERIF_WORKERS=${VERIF_WORKERS:-8} timeout 1500 ./check $p --tier quick 2>&1 | grep -v conda)
  rc=$?
  v=$(echo "$out" | grep -c '^VIOLATION')
  first=$(echo "$out" | grep -A1 '^VIOLATION' | grep '^  ' | head -1 | cut -c1-220)
  h=$(echo "$out" | grep -c 'HARNESS-ERROR')
  echo "CHECK $p violations=$v harness=$h $first"
  if [ "$h" != "0" ]; then echo "$out" | grep HARNESS | cut -c1-400; fi
done
