"""cross-matrix: run every check of the relevant machine(s) against every seeded change and record, in each
seeded/<id>/meta.json, which checks catch it at the quick tier (development-time tool)."""
import json, os, subprocess, sys
ROOT = os.path.dirname(os.path.abspath(__file__))
GROUPS = {
    'graph': ['C01', 'C05', 'C10', 'C11', 'C15', 'C16'],
    'sched': ['C02', 'C03', 'C04', 'C06', 'C07', 'C08', 'C09', 'C14'],
    'csv': ['C13'], 'render': ['C19'],
}
def group_of(p):
    return next(g for g, ps in GROUPS.items() if p in ps)
only = sys.argv[1:] 
for d in sorted(os.listdir(os.path.join(ROOT, 'seeded'))):
    if only and not any(o in d for o in only):
        continue
    mp = os.path.join(ROOT, 'seeded', d, 'meta.json')
    if not os.path.exists(mp):
        continue
    meta = json.load(open(mp))
    props = GROUPS[group_of(meta['property'])]
    # a change in task.py / wbs.py can also surface in the schedulers and vice versa: keep it to the own machine
    out = subprocess.run([os.path.join(ROOT, 'tools_eval_mutant.sh'), os.path.join(ROOT, 'seeded', d), 'patch.diff', 'demo.py'] + props,
                         capture_output=True, text=True, env=dict(os.environ, VERIF_WORKERS=os.environ.get('VERIF_WORKERS', '8'))).stdout
    caught, detail = [], {}
    for line in out.splitlines():
        if line.startswith('CHECK '):
            parts = line.split()
            p = parts[1]
            v = int(parts[2].split('=')[1]); h = int(parts[3].split('=')[1])
            if v > 0:
                caught.append(p)
                detail[p] = ' '.join(parts[4:])[:200]
            elif h:
                detail[p] = 'HARNESS-ERROR'
    meta['caught_by'] = caught
    meta['first_report'] = detail
    json.dump(meta, open(mp, 'w'), indent=1)
    print(d, 'caught by', caught, flush=True)
