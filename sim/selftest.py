"""Self-tests of the simulator (development-time tools, not registered as checks).

selftest-determinism : every machine, N seeds, each run twice in-process, plus three fresh
                       interpreters under PYTHONHASHSEED 0 / 1 / random; all event-log digests must agree.
selftest-digest      : helper used by the above (prints per-machine combined digests).
selftest-sensitivity : applies every patch under seeded/<id>/patch.diff (and mutants/*.diff) to a scratch
                       copy of /repo/src and expects the check of the property named in meta.json to
                       report a VIOLATION; then expects the unpatched copy to stay quiet.
"""
import hashlib
import json
import os
import shutil
import subprocess
import sys
import tempfile

from . import core

MACHINES = [('gmachine', 'C01'), ('smachine', 'C06'), ('cmachine', 'C13'), ('rmachine', 'C19')]


def digests(n):
    import importlib
    core.load_pjplan()
    out = {}
    for name, prop in MACHINES:
        m = importlib.import_module('sim.' + name)
        h = hashlib.sha256()
        for seed in range(n):
            r = m.run_seed(seed * 7919 + 13, prop, keep_log=True)
            h.update(r.log.digest().encode())
            h.update(repr(r.violation.sig if r.violation else None).encode())
        out[name] = h.hexdigest()[:20]
    return out


def main(which, args):
    n = args.runs or 300
    if which == 'selftest-digest':
        print('DIGESTS ' + json.dumps(digests(n), sort_keys=True))
        return core.EXIT_OK
    if which == 'selftest-determinism':
        a = digests(n)
        b = digests(n)
        ok = a == b
        print('in-process twice:', 'equal' if ok else f'DIFFER {a} {b}')
        for hs in ('0', '1', 'random'):
            env = dict(os.environ, PYTHONHASHSEED=hs)
            p = subprocess.run([sys.executable, os.path.join(core.VERIF_DIR, 'check'), 'selftest-digest', '--runs', str(n)],
                               capture_output=True, text=True, env=env, timeout=3600)
            got = None
            for line in p.stdout.splitlines():
                if line.startswith('DIGESTS '):
                    got = json.loads(line[8:])
            same = got == a
            ok = ok and same
            print(f'fresh interpreter PYTHONHASHSEED={hs}:', 'equal' if same else f'DIFFER {got} vs {a}')
        print('DETERMINISM', 'OK' if ok else 'FAILED', f'({n} seeds per machine, {len(MACHINES)} machines)')
        return core.EXIT_OK if ok else core.EXIT_HARNESS
    if which == 'selftest-sensitivity':
        return sensitivity(args)
    raise core.HarnessError(f'unknown selftest {which}')


def sensitivity(args):
    root = core.VERIF_DIR
    cases = []
    sd = os.path.join(root, 'seeded')
    if os.path.isdir(sd):
        for d in sorted(os.listdir(sd)):
            meta = os.path.join(sd, d, 'meta.json')
            patch = os.path.join(sd, d, 'patch.diff')
            if os.path.exists(meta) and os.path.exists(patch):
                m = core.read_json(meta)
                if m.get('caught_by') == [] and str(m.get('strengthening', '')).startswith('NOT CAUGHT'):
                    print(f'{d}: documented miss, skipped')
                    continue
                cases.append((d, patch, m.get('caught_by') or [m['property']]))
    only = os.environ.get('VERIF_ONLY')
    results = {}
    failed = 0
    for name, patch, props in cases:
        if only and only not in name:
            continue
        tmp = tempfile.mkdtemp(prefix='pjmut_')
        try:
            shutil.copytree('/repo/src', os.path.join(tmp, 'src'))
            shutil.copytree('/repo/tests', os.path.join(tmp, 'tests'))
            p = subprocess.run(['patch', '-p1', '-s', '-d', tmp, '-i', patch], capture_output=True, text=True)
            if p.returncode != 0:
                print(f'{name}: PATCH DOES NOT APPLY: {p.stdout[-300:]} {p.stderr[-300:]}')
                results[name] = 'patch-failed'
                failed += 1
                continue
            caught = []
            for prop in props:
                env = dict(os.environ, PJPLAN_SRC=os.path.join(tmp, 'src'), VERIF_EVIDENCE_DIR=os.path.join(tmp, 'evidence'), VERIF_REPLAY_DIR=os.path.join(tmp, 'replays'))
                q = subprocess.run([sys.executable, os.path.join(root, 'check'), prop, '--tier', 'quick'], capture_output=True,
                                   text=True, env=env, timeout=3600)
                if q.returncode == 1 and 'VIOLATION property=' + prop in q.stdout:
                    caught.append(prop)
                elif q.returncode not in (0, 1):
                    print(f'{name}: {prop} harness error: {q.stdout[-400:]}')
            results[name] = caught
            print(f'{name}: caught by {caught or "NOTHING"} (expected {props})')
            if not caught:
                failed += 1
        finally:
            shutil.rmtree(tmp, ignore_errors=True)
    print('SENSITIVITY', 'OK' if not failed else f'{failed} patch(es) not caught', json.dumps(results))
    return core.EXIT_OK if not failed else core.EXIT_HARNESS
