"""Schedule machine, part 3: seeded scenario generation (WBS, links, resources, calendars, peers,
clock policies, calc histories).  Output is a plain JSON scenario."""
import datetime as _dt

from .soracle import Struct
from .sworld import DT

EST = [None, 0, 1, 2, 3, 5, 8, 13, 0.5, 2.25, 0.1, 1 / 3, 4, 6, 21, 40, 100, 0.7]
RES_POOL = [None, 'r1', 'r2', 'r3', 'rx']


def iso(d):
    return d.isoformat()


def gen_calendar(r, base_day, safe=True, depth=0):
    """a calendar with positive capacity on a periodic set of days (safe=True)"""
    kind = r.choice(['weekly', 'weekly', 'weeklyd', 'op', 'op'] if depth < 2 else ['weekly', 'weeklyd'])
    if kind == 'weekly':
        days = sorted(r.sample(range(7), r.randint(1, 7)))
        return {'t': 'weekly', 'days': days, 'units': r.choice([8, 8, 4, 6, 1, 0.5, 7.5, 10])}
    if kind == 'weeklyd':
        m = {str(d): r.choice([0, 2, 4, 8, 8, 0.25, 3.5]) for d in r.sample(range(7), r.randint(1, 7))}
        if not any(v > 0 for v in m.values()):
            m[str(r.randrange(7))] = 8
        return {'t': 'weeklyd', 'map': m}
    a = gen_calendar(r, base_day, safe, depth + 1)
    o = r.choice(['*', '/', '+', '-', '|', '|b'])
    if o == '*':
        return {'t': 'op', 'op': '*', 'a': a, 'b': r.choice([0.5, 2, 0.25, 1.5])}
    if o == '/':
        return {'t': 'op', 'op': '/', 'a': a, 'b': r.choice([2, 4, 0.5])}
    if o == '+':
        b = r.choice([1, 0.5, {'t': 'direct', 'map': {iso(base_day + _dt.timedelta(days=r.randint(-3, 20))): r.choice([2, 4, 8])}}])
        return {'t': 'op', 'op': '+', 'a': a, 'b': b}
    if o == '-':
        # holidays: direct calendar with large values on a few dates -> negative -> no capacity
        m = {iso(base_day + _dt.timedelta(days=r.randint(-3, 25))): 100 for _ in range(r.randint(1, 4))}
        return {'t': 'op', 'op': '-', 'a': a, 'b': {'t': 'direct', 'map': m}}
    if o == '|':
        # bounded weekly first, unbounded fallback
        s = base_day + _dt.timedelta(days=r.randint(-5, 10))
        e = s + _dt.timedelta(days=r.randint(0, 12), hours=23, minutes=59, seconds=59, microseconds=999999)
        first = {'t': 'weekly', 'days': sorted(r.sample(range(7), r.randint(1, 7))), 'units': r.choice([2, 4, 12]),
                 'start': iso(s) if r.random() < 0.8 else None, 'end': iso(e) if r.random() < 0.8 else None}
        return {'t': 'op', 'op': '|', 'a': first, 'b': a}
    # direct overrides first, fallback to a
    m = {iso(base_day + _dt.timedelta(days=r.randint(-3, 25))): r.choice([0, 1, 3, 16]) for _ in range(r.randint(1, 4))}
    return {'t': 'op', 'op': '|', 'a': {'t': 'direct', 'map': m}, 'b': a}


def gen_dead_calendar(r, base_day, direction):
    k = r.choice(['zero', 'fixed0', 'bounded', 'empty'])
    if k == 'zero':
        return {'t': 'weekly', 'days': [0, 1, 2], 'units': 0}
    if k == 'fixed0':
        return {'t': 'fixed', 'units': 0}
    if k == 'empty':
        return {'t': 'direct', 'map': {}}
    if direction == 'fwd':
        e = base_day - _dt.timedelta(days=r.randint(2, 400)) + _dt.timedelta(hours=23, minutes=59, seconds=59, microseconds=999999)
        return {'t': 'weekly', 'days': [0, 1, 2, 3, 4], 'units': 8, 'end': iso(e)}
    s = base_day + _dt.timedelta(days=r.randint(2, 400))
    return {'t': 'weekly', 'days': [0, 1, 2, 3, 4], 'units': 8, 'start': iso(s)}


def gen_clock(r, P, moving=True):
    """clock policy relative to the project date P"""
    off = r.choice([
        -_dt.timedelta(days=3650), -_dt.timedelta(days=r.randint(1, 40)), -_dt.timedelta(hours=r.randint(1, 30)),
        -_dt.timedelta(microseconds=1), _dt.timedelta(0), _dt.timedelta(0), _dt.timedelta(microseconds=1),
        _dt.timedelta(hours=r.randint(1, 30)), _dt.timedelta(days=r.randint(1, 30), minutes=r.randint(0, 1439)),
        _dt.timedelta(days=r.randint(1, 6)),
    ])
    T = P + off
    if r.random() < 0.15:
        T = DT(T.year, T.month, T.day, 23, 59, 59, 999000 + r.randint(0, 999))
    if r.random() < 0.1:
        T = DT(T.year, T.month, T.day)
    k = r.choice(['frozen', 'frozen', 'tick', 'jump', 'back']) if moving else 'frozen'
    if k == 'frozen':
        return {'kind': 'frozen', 't': iso(T)}
    if k == 'tick':
        return {'kind': 'tick', 't': iso(T), 'step_us': r.choice([1, 500, 60_000_000, 3_600_000_000, 20_000_000_000])}
    if k == 'jump':
        return {'kind': 'jump', 't': iso(T), 'at': r.randint(0, 14), 'delta_s': r.choice([1, 3600, 86400, 3 * 86400, 10 * 86400]),
                'step_us': r.choice([0, 1, 1000])}
    return {'kind': 'back', 't': iso(T), 'at': r.randint(1, 14), 'delta_s': r.choice([1, 60, 3600, 86400, 2 * 86400]),
            'step_us': r.choice([0, 1, 1000])}


def gen_early_clock(r, P, same_day_ok=True):
    """a clock policy all of whose reads are <= P (for the clock-independence clause)"""
    k = r.choice(['far', 'near', 'tick', 'back', 'equal'])
    if k == 'equal':
        return {'kind': 'frozen', 't': iso(P)} if same_day_ok else {'kind': 'frozen', 't': iso(DT(P.year, P.month, P.day) - _dt.timedelta(seconds=1))}
    if k == 'far':
        return {'kind': 'frozen', 't': iso(P - _dt.timedelta(days=r.randint(30, 5000), seconds=r.randint(0, 86399)))}
    base = P - _dt.timedelta(seconds=r.randint(2, 40000)) if same_day_ok else DT(P.year, P.month, P.day) - _dt.timedelta(seconds=r.randint(2, 40000))
    if k == 'near':
        return {'kind': 'frozen', 't': iso(base)}
    if k == 'tick':
        return {'kind': 'tick', 't': iso(base), 'step_us': 1}
    return {'kind': 'back', 't': iso(base), 'at': r.randint(1, 6), 'delta_s': r.choice([60, 86400]), 'step_us': 0}


def make_scenario(streams, quarantine=()):
    r = streams('shape')
    from . import core as _core
    deep = _core.TIER == 'thorough'
    n = r.choice([1, 2, 2, 3, 3, 4, 4, 5, 6, 7, 8, 10] + ([12, 14] if deep else []))
    direction = 'fwd' if r.random() < 0.62 else 'bwd'
    klass = 'ok'
    x = r.random()
    if x < 0.02:
        klass = 'never_available'
    elif x < 0.07:
        klass = 'hier_cycle'
    elif x < 0.10:
        klass = 'ext_nodate'
    elif x < 0.14 and direction == 'fwd':
        klass = 'future_end'
    elif x < 0.155:
        klass = 'runs_out'      # a calendar whose validity ends (forward) / begins (backward) in the middle of the work
    base_day = DT(2024, 1, 1) + _dt.timedelta(days=r.randint(0, 500))
    P = base_day if r.random() < 0.5 else base_day + _dt.timedelta(hours=r.randint(0, 23), minutes=r.choice([0, 0, 30, 17]))
    ids = list(range(0, n + 4))
    r.shuffle(ids)
    tasks = []
    depth = {}
    for i in range(n):
        name = f't{i}'
        parent = None
        if i > 0 and r.random() < 0.45:
            cands = [t['name'] for t in tasks if depth[t['name']] < (4 if deep else 3)]
            parent = r.choice(cands)
        depth[name] = depth[parent] + 1 if parent else 0
        kw = {'name': f'N{i}'}
        est = r.choice(EST)
        if est is not None:
            kw['estimate'] = est
        sp = r.choice([None, None, 0, 1, 0.5, 'over', 'tiny'])
        if sp == 'over':
            sp = (est or 0) + 1
        elif sp == 'tiny':
            # remaining work of float-noise size: 0.1 + 0.2 - 0.3
            est, sp = r.choice([(0.1 + 0.2, 0.3), (1e-12, None), (1.1 + 2.2, 3.3), (5e-324, None)])
            kw['estimate'] = est
            kw['_tiny'] = True
        if sp is not None:
            kw['spent'] = sp
        res = r.choice(RES_POOL)
        if kw.pop('_tiny', False):
            # keep float-noise amounts on a resource of their own: a noise-size row of an ordinary task would
            # put a work day at its end date (less than a microsecond of work), which no statement speaks about
            res = 'rtiny'
        if res is not None:
            kw['resource'] = res
        if r.random() < 0.08:
            kw['milestone'] = True
        if r.random() < 0.15:
            ms = P + _dt.timedelta(days=r.randint(-10, 20))
            if r.random() < 0.5:
                ms = DT(ms.year, ms.month, ms.day)
            kw['min_start'] = iso(ms)
        if r.random() < 0.4:
            kw['tag'] = r.choice(['a', 'b'])
        tasks.append({'name': name, 'id': ids[i], 'parent': parent, 'kw': kw})
    sc = {'machine': 'sched', 'tasks': tasks, 'links': [], 'external': [], 'resources': [], 'wbs_kw': {}}
    if r.random() < 0.3:
        sc['wbs_kw'] = {'title': 'P'}
    st = Struct(sc)
    # user values on summaries are replaced by roll-ups; milestones only on leaves
    for t in tasks:
        if not st.is_leaf(t['name']):
            t['kw'].pop('milestone', None)
            # (kept consistent, start <= end, both far in the past: an edit may turn the summary into a leaf later)
            if r.random() < 0.3:
                t['kw']['start'] = iso(P - _dt.timedelta(days=r.randint(4500, 4600)))
            if r.random() < 0.3:
                t['kw']['end'] = iso(P - _dt.timedelta(days=r.randint(4000, 4400)))
    # links, keeping the expanded leaf graph acyclic
    names = [t['name'] for t in tasks]
    for _ in range(r.choice([0, 0, 1, 1, 2, 3, n, n + 2])):
        if n < 2:
            break
        a, b = r.sample(names, 2)
        if a in st.ancestors(b) or b in st.ancestors(a) or [a, b] in sc['links']:
            continue
        sc['links'].append([a, b])
        st2 = Struct(sc)
        if st2.expanded_cyclic() or direct_cycle(st2):
            sc['links'].pop()
    st = Struct(sc)
    # fixed dates (forward only, leaves): started tasks and completed tasks
    leaves = [t for t in tasks if st.is_leaf(t['name'])]
    if direction == 'fwd':
        for t in leaves:
            x = r.random()
            if t['kw'].get('milestone'):
                # a milestone may carry dates from an earlier plan or a CSV file; they do not bind the scheduler
                if x < 0.3:
                    t['kw']['start'] = iso(P + _dt.timedelta(days=r.randint(-40, 10), hours=r.choice([0, 0, 9])))
                    if x < 0.12:
                        t['kw']['end'] = iso(P - _dt.timedelta(days=r.randint(4000, 4400)))
                continue
            if x < 0.08:
                t['kw']['start'] = iso(P + _dt.timedelta(days=r.randint(-20, 10), hours=r.choice([0, 0, 9])))
            elif x < 0.16:
                s = P - _dt.timedelta(days=r.randint(4000, 4400))
                t['kw']['start'] = iso(s)
                t['kw']['end'] = iso(s + _dt.timedelta(days=r.randint(0, 30), hours=r.choice([0, 12])))
    # external predecessor
    if direction == 'fwd' and (r.random() < 0.12 or klass == 'ext_nodate'):
        e = {'name': 'x0', 'id': 900 if r.random() < 0.7 else tasks[0]['id']}
        s = P + _dt.timedelta(days=r.randint(-30, 15))
        e['start'] = iso(s)
        e['end'] = iso(s + _dt.timedelta(days=r.randint(0, 10), hours=r.choice([0, 15])))
        e['estimate'] = 1
        e['spent'] = 0
        sc['external'].append(e)
        sc['links'].append([r.choice(names), 'x0'])
    if klass == 'ext_nodate':
        if direction == 'bwd':
            s = P + _dt.timedelta(days=r.randint(-30, -15))
            sc['external'] = [{'name': 'x0', 'id': 900, 'start': iso(s), 'end': iso(s), 'estimate': 1, 'spent': 0}]
            sc['links'].append([r.choice(names), 'x0'])
        sc['external'][0].pop(r.choice(['start', 'end']))
    # hierarchy-closing cycle: a1 waits for B, B waits for A (ancestor of a1)
    if klass == 'hier_cycle':
        st = Struct(sc)
        cands = [(a, l, b) for a in names if not st.is_leaf(a) for l in st.leaves(a) for b in names
                 if b != a and b not in st.descendants(a) and b not in st.ancestors(a)
                 and not set(st.descendants(b)) & set([a] + st.descendants(a))]
        if cands:
            a, l, b = r.choice(cands)
            # orientation drawn from its own stream (added late: every other scenario keeps its seed).
            # 'down': l waits for b, b waits for the summary a (closes through a's children);
            # 'up'  : the summary a waits for b, b waits for a descendant d of a (closes through the
            #         predecessors d inherits from an ancestor that may be several levels up)
            if streams('hier_orient').random() < 0.5:
                new = [[l, b], [b, a]]
            else:
                deep = [d for d in st.descendants(a) if st.parent.get(d) != a] or st.descendants(a)
                d = streams('hier_orient').choice(sorted(deep))
                new = [[a, b], [b, d]]
            sc['links'] = [x for x in sc['links'] if x not in new] + new
            if direct_cycle(Struct(sc)):
                sc['links'] = new
        else:
            klass = 'ok'
    # resources
    used = sorted({t['kw'].get('resource') for t in leaves if t['kw'].get('resource')} - {'rx'})
    supplied = [x for x in ['r1', 'r2', 'r3'] if (x in used and r.random() < 0.8) or r.random() < 0.1]
    dead = None
    if klass == 'never_available':
        cand = [t for t in leaves if not t['kw'].get('milestone') and not t['kw'].get('start') and t['kw'].get('resource') in ('r1', 'r2', 'r3')]
        if cand:
            dead = r.choice(cand)['kw']['resource']
            if dead not in supplied:
                supplied.append(dead)
        else:
            klass = 'ok'
    if klass == 'runs_out':
        cand = [t for t in leaves if not t['kw'].get('milestone') and t['kw'].get('resource') in ('r1', 'r2', 'r3')]
        if cand:
            victim = r.choice(cand)
            victim['kw']['estimate'] = r.choice([30, 60, 200])
            victim['kw'].pop('spent', None)
            runs_out = victim['kw']['resource']
            if runs_out not in supplied:
                supplied.append(runs_out)
        else:
            klass, runs_out = 'ok', None
    else:
        runs_out = None
    for name in supplied:
        if name == runs_out:
            edge = base_day + _dt.timedelta(days=r.randint(1, 9))
            cal = {'t': 'weekly', 'days': [0, 1, 2, 3, 4], 'units': 8}
            if direction == 'fwd':
                cal['end'] = iso(edge + _dt.timedelta(hours=23, minutes=59, seconds=59, microseconds=999999))
            else:
                cal['start'] = iso(base_day - _dt.timedelta(days=r.randint(1, 9)))
            sc['resources'].append({'name': name, 'kind': 'real', 'cal': cal})
            continue
        if name == dead:
            if r.random() < 0.3:
                sc['resources'].append({'name': name, 'kind': 'sim', 'weekly': [0] * 7, 'overrides': {}})
            else:
                sc['resources'].append({'name': name, 'kind': 'real', 'cal': gen_dead_calendar(r, base_day, direction)})
        elif r.random() < 0.35:
            weekly = [r.choice([0, 0, 8, 8, 4, 2.5, 1]) for _ in range(7)]
            if not any(weekly):
                weekly[r.randrange(7)] = 8
            ov = {(base_day + _dt.timedelta(days=r.randint(-6, 25))).date().isoformat(): r.choice([0, 0, 1, 0.5, 12])
                  for _ in range(r.randint(0, 4))}
            res_spec = {'name': name, 'kind': 'sim', 'weekly': weekly, 'overrides': ov}
            if r.random() < 0.25:
                users = [t['id'] for t in leaves if t['kw'].get('resource') == name]
                if users:
                    res_spec['task_limits'] = {str(i): r.choice([0.5, 1, 2, 3, 12, 16]) for i in r.sample(users, min(len(users), r.randint(1, 2)))}
            sc['resources'].append(res_spec)
        else:
            sc['resources'].append({'name': name, 'kind': 'real', 'cal': gen_calendar(r, base_day)})
    # future end: a completed task whose end is after the clock
    sc['klass'] = klass
    sc['P'] = iso(P)
    explicit = r.random() < 0.85
    params = {'dir': direction, 'balance': r.random() < 0.7, 'resources': supplied}
    if r.random() < 0.5:
        params['default_estimate'] = r.choice([0, 1, 3, 0.5])
    if explicit:
        params['start' if direction == 'fwd' else 'end'] = iso(P)
    sc['schedulers'] = {'A': params}
    other = dict(params)
    if r.random() < 0.5:
        other['balance'] = not params['balance']
    else:
        other['dir'] = 'bwd' if direction == 'fwd' else 'fwd'
        other.pop('start', None)
        other.pop('end', None)
        other['end' if other['dir'] == 'bwd' else 'start'] = iso(P)
    sc['schedulers']['B'] = other
    # calc history
    rc = streams('clock')
    metamorphic = direction == 'fwd' and not params['balance'] and n >= 2 and klass == 'ok'
    clock = gen_clock(rc, P, moving=not (metamorphic and rc.random() < 0.7))
    if klass == 'future_end':
        cand = [t for t in leaves if not t['kw'].get('milestone')]
        if cand:
            t = r.choice(cand)
            T0 = DT.fromisoformat(clock['t'])
            t['kw']['start'] = iso(T0 - _dt.timedelta(days=30))
            t['kw']['end'] = iso(T0 + _dt.timedelta(days=r.randint(15, 60)))
        else:
            sc['klass'] = 'ok'
    ops = [{'op': 'calc', 'sched': 'A', 'fresh': True, 'clock': clock}]
    ro = streams('ops')
    for _ in range(ro.choice([0, 1, 1, 2, 3])):
        k = ro.choice(['same', 'fresh', 'fail', 'early', 'early', 'other', 'minus', 'other_wbs'])
        if k in ('minus', 'same') and direction == 'fwd' and not params['balance'] and n >= 2 and clock['kind'] == 'frozen':
            ops.append({'op': 'calc_minus', 'sched': 'A', 'clock': clock, 'remove': ro.choice(names), 'ref': 0})
        elif k == 'other_wbs' and n >= 2:
            ops.append({'op': 'calc_other_wbs', 'sched': 'A', 'clock': clock, 'remove': ro.choice(names)})
            ops.append({'op': 'calc', 'sched': 'A', 'fresh': False, 'clock': clock, 'equal_to': 0})
        elif k == 'same':
            ops.append({'op': 'calc', 'sched': 'A', 'fresh': False, 'clock': clock, 'equal_to': 0})
        elif k == 'fresh':
            ops.append({'op': 'calc', 'sched': 'A', 'fresh': True, 'clock': clock, 'equal_to': 0})
        elif k == 'fail' and supplied:
            rf = streams('faults')
            ops.append({'op': 'calc', 'sched': 'A', 'fresh': ro.random() < 0.3, 'clock': clock,
                        'peer_fail': {ro.choice(supplied): rf.choice([0, 1, 2, 3, 5, 8, 13, 21])}})
            ops.append({'op': 'calc', 'sched': 'A', 'fresh': False, 'clock': clock, 'equal_to': 0})
        elif k == 'early' and direction == 'fwd' and explicit:
            same_day_ok = not ('F17' in quarantine and P != DT(P.year, P.month, P.day))
            ops.append({'op': 'calc', 'sched': 'A', 'fresh': ro.random() < 0.7, 'clock': gen_early_clock(rc, P, same_day_ok), 'ci': True})
        elif k == 'other':
            ops.append({'op': 'calc', 'sched': 'B', 'fresh': True, 'clock': gen_clock(rc, P, moving=True)})
            ops.append({'op': 'calc', 'sched': 'A', 'fresh': False, 'clock': clock, 'equal_to': 0})
        elif k in ('minus', 'same', 'fresh') and direction == 'fwd' and not params['balance'] and n >= 2 and clock['kind'] == 'frozen':
            ops.append({'op': 'calc_minus', 'sched': 'A', 'clock': clock, 'remove': ro.choice(names), 'ref': 0})
    if metamorphic and clock['kind'] == 'frozen' and not any(o['op'] == 'calc_minus' for o in ops):
        # balancing off: a task's dates must not change when an unrelated task is removed; prefer removing a
        # task that shares a resource with another one
        by_res = {}
        for t in leaves:
            by_res.setdefault(t['kw'].get('resource'), []).append(t['name'])
        shared = [x for v in by_res.values() if len(v) > 1 for x in v]
        ops.append({'op': 'calc_minus', 'sched': 'A', 'clock': clock, 'remove': ro.choice(shared or names), 'ref': 0})
    # an earlier result fed back into a scheduler (dates cleared): typical "re-plan" use
    if klass == 'ok' and ro.random() < 0.12:
        ops.append({'op': 'calc', 'sched': ro.choice(['A', 'A', 'B']), 'fresh': ro.random() < 0.5, 'clock': clock, 'on_result': 0,
                    'clear': ro.random() < 0.6})
    # a calendar (or the peer's table) edited in place between two calcs of the same scheduler object
    if klass == 'ok' and supplied and ro.random() < 0.2:
        def _has_direct(spec):
            return isinstance(spec, dict) and (spec.get('t') == 'direct' or _has_direct(spec.get('a')) or _has_direct(spec.get('b')))
        editable = [x['name'] for x in sc['resources'] if x['name'] in supplied and (x['kind'] == 'sim' or _has_direct(x.get('cal')))
                    and any(t['kw'].get('resource') == x['name'] for t in leaves)]
        if editable:
            ops.append({'op': 'mutate', 'm': {'kind': 'cal_set_units', 'res': ro.choice(editable), 'idx': ro.randrange(3),
                                             'date': iso(base_day + _dt.timedelta(days=ro.choice([0, 1, 2, 3]))),
                                             'from_rows': ro.choice([0, 0, 1, 2, -1]), 'units': ro.choice([0, 0, 0, 100, 0.5, 16])}})
            ops.append({'op': 'calc', 'sched': 'A', 'fresh': ro.random() < 0.25, 'clock': clock})
    # WBS edited between two calcs (history dimension): the same scheduler object sees a changed WBS
    if klass == 'ok' and ro.random() < 0.3 and n >= 1:
        st3 = Struct(sc)
        edits = []
        for _ in range(ro.choice([1, 1, 2])):
            k = ro.choice(['add_link', 'add_link', 'remove_link', 'set_kw', 'set_kw', 'late_cycle', 'cal_edit', 'cal_edit', 'reparent', 'reparent'])
            if k == 'add_link' and n >= 2:
                a, b = ro.sample(names, 2)
                if a in st3.ancestors(b) or b in st3.ancestors(a) or [a, b] in sc['links']:
                    continue
                trial = dict(sc, links=sc['links'] + [x['m']['link'] for x in edits if x['m']['kind'] == 'add_link'] + [[a, b]])
                if Struct(trial).expanded_cyclic() or direct_cycle(Struct(trial)):
                    continue
                edits.append({'op': 'mutate', 'm': {'kind': 'add_link', 'link': [a, b]}})
            elif k == 'remove_link' and sc['links']:
                l = ro.choice([x for x in sc['links'] if x[1] in names] or [None])
                if l:
                    edits.append({'op': 'mutate', 'm': {'kind': 'remove_link', 'link': list(l)}})
            elif k == 'set_kw':
                t = ro.choice(leaves)
                edits.append({'op': 'mutate', 'm': {'kind': 'set_kw', 'task': t['name'], 'key': ro.choice(['estimate', 'spent']),
                                                   'value': ro.choice([0, 1, 2, 5, 0.5, None])}})
            elif k == 'reparent' and n >= 2 and not edits:
                # move a task below another one (a former leaf becomes a summary) or to the root level
                a = ro.choice(names)
                # (never below a milestone: the statements do not say what a milestone with children means)
                tgt = ro.choice([x for x in names if x != a and x not in st3.descendants(a)
                                 and not st3.spec[x]['kw'].get('milestone')] + [None])
                if tgt is None and st3.parent.get(a) is None:
                    continue
                if tgt is not None:
                    depth_ok = len(st3.ancestors(tgt)) + 1 + max([0] + [len(st3.ancestors(d)) - len(st3.ancestors(a)) for d in st3.descendants(a)]) <= 3
                    if not depth_ok or tgt == st3.parent.get(a):
                        continue
                # the API itself rejects moves that put a task below something it is linked with
                trial = _copy_tasks_reparent(sc, a, tgt)
                if Struct(trial).expanded_cyclic():
                    continue
                edits.append({'op': 'mutate', 'm': {'kind': 'reparent', 'task': a, 'parent': tgt}})
            elif k == 'cal_edit' and supplied:
                def has_direct(spec):
                    return isinstance(spec, dict) and (spec.get('t') == 'direct' or has_direct(spec.get('a')) or has_direct(spec.get('b')))
                editable = [x['name'] for x in sc['resources'] if x['name'] in supplied and (x['kind'] == 'sim' or has_direct(x.get('cal')))
                            and any(t['kw'].get('resource') == x['name'] for t in leaves)]
                if editable:
                    # a day the schedule is likely to use: the first days from the project date on
                    edits.append({'op': 'mutate', 'm': {'kind': 'cal_set_units', 'res': ro.choice(editable), 'idx': ro.randrange(3),
                                                       'date': iso(base_day + _dt.timedelta(days=ro.choice([0, 0, 1, 1, 2, 3, 4, 7, -1, 12]))),
                                                       'from_rows': ro.choice([None, 0, 0, 1, 2, -1]),
                                                       'units': ro.choice([0, 0, 0.5, 4, 8, 16, 100])}})
            elif k == 'late_cycle' and not edits:
                cands = [(a, l, b) for a in names if not st3.is_leaf(a) for l in st3.leaves(a) for b in names
                         if b != a and b not in st3.descendants(a) and b not in st3.ancestors(a)
                         and not set(st3.descendants(b)) & set([a] + st3.descendants(a))]
                if cands:
                    a, l, b = ro.choice(cands)
                    trial = dict(sc, links=sc['links'] + [[l, b], [b, a]])
                    if not direct_cycle(Struct(trial)):
                        edits.append({'op': 'mutate', 'm': {'kind': 'add_link', 'link': [l, b]}})
                        edits.append({'op': 'mutate', 'm': {'kind': 'add_link', 'link': [b, a]}})
                        sc['klass'] = 'late_cycle'
                        break
        if edits:
            ops += edits
            ops.append({'op': 'calc', 'sched': 'A', 'fresh': ro.random() < 0.4, 'clock': clock})
    sc['ops'] = ops
    return sc


def _copy_tasks_reparent(sc, a, tgt):
    import copy
    t2 = copy.deepcopy(sc['tasks'])
    ent = [t for t in t2 if t['name'] == a][0]
    t2.remove(ent)
    ent['parent'] = tgt
    t2.append(ent)
    return dict(sc, tasks=t2)


def direct_cycle(st):
    """cycle in the declared predecessor graph itself (the API would reject it)"""
    color = {}

    def visit(u):
        color[u] = 1
        for v in st.preds.get(u, []):
            if v in st.ext:
                continue
            c = color.get(v)
            if c == 1 or (c is None and visit(v)):
                return True
        color[u] = 2
        return False
    return any(color.get(n) is None and visit(n) for n in st.spec)
