"""Graph machine, part 4: one simulated run = universe + operation/fault history executed
against the real code with every oracle evaluated after every step."""
import copy as _copy

from . import core
from . import gmodel as gm
from . import ggen
from .gworld import World, snapshot, derived

PROPS = ('C01', 'C05', 'C10', 'C11', 'C15', 'C16')
MUTATORS_NOT_JUDGED_C15 = ('new_task', 'new_wbs', 'clone', 'subtree', 'acquire', 'observe', 'w_setattr')


def named(op, world, S=None):
    """every task / WBS name an operation mentions (for the frame and independence checks); for a bulk operation
    through a query that includes the tasks the query selects"""
    out = set()
    q = op.get('q')
    if q and not q.get('h') and S is not None:
        src = None
        if q['what'] in ('children', 'roots'):
            src = S['wbs'][q['on']]['roots'] if q['on'] in S['wbs'] else S['tasks'].get(q['on'], {}).get('children')
        elif q['what'] in ('tasks', 'all_children'):
            src = gm.dfs(S, S['wbs'][q['on']]['roots']) if q['on'] in S['wbs'] else (
                gm.descendants(S, q['on']) if q['on'] in S['tasks'] else None)
        for m in src or []:
            if q.get('ids') is None or S['tasks'][m]['id'] in set(q['ids']):
                out.add(m)

    def add(x):
        if isinstance(x, str):
            out.add(x)
    for k in ('t', 'p', 'on', 'w', 'before', 'after', 'value'):
        add(op.get(k))
    for k in ('arg', 'value'):
        a = op.get(k)
        if isinstance(a, dict):
            for n in a.get('items', []):
                add(n)
    for k in ('via', 'q'):
        v = op.get(k)
        if v:
            if v.get('h'):
                h = world.handles.get(v['h'])
                if h:
                    out.add(h['on'])
                    out.update(h['members'])
            else:
                add(v.get('on'))
    for k, v in (op.get('kw') or {}).items():
        if isinstance(v, dict):
            for n in v.get('items', []):
                add(n)
        else:
            add(v)
    return out


def shape_of(op, S0, world):
    k = op['op']
    parts = []
    via = op.get('via') or op.get('q')
    lst = None
    if via:
        on, what, h = gm.resolve_via(via, world, S0)
        if h is not None:
            stale = h['ver'] < world.list_ver.get((h['on'], h['what']), 0)
            parts.append('stale-handle' if stale else 'handle')
        if on in S0['tasks'] and what == 'children':
            lst = S0['tasks'][on]['children']
        elif on in S0['wbs']:
            lst = S0['wbs'][on]['roots']
    if k == 'l_insert' and lst is not None:
        n, i = len(lst), op['i']
        if op['t'] in lst:
            parts.append('member')
        elif n == 0:
            parts.append('empty')
        elif i == n:
            parts.append('idx=len')
        elif i > n:
            parts.append('idx>len')
        elif i < -n:
            parts.append('idx<-len')
        elif i < 0:
            parts.append('idx<0')
        else:
            parts.append('idx-ok')
    if k == 'l_move':
        items = (op.get('arg') or {}).get('items', [])
        if op.get('before') and op.get('after'):
            parts.append('both-anchors')
        elif not op.get('before') and not op.get('after'):
            parts.append('no-anchor')
        elif (op.get('before') or op.get('after')) in items:
            parts.append('self-anchor')
        elif lst is not None and any(i not in lst for i in items):
            parts.append('foreign-task')
        elif lst is not None and (op.get('before') or op.get('after')) not in lst:
            parts.append('foreign-anchor')
        else:
            parts.append('multi' if len(items) > 1 else 'single')
    a = op.get('arg')
    if isinstance(a, dict) and not k.startswith('q_'):
        parts.append(a['k'] + (str(min(len(a.get('items', [])), 2)) if a['k'] in ('list', 'tuple', 'gen') else ''))
    if k == 'q_setattr':
        parts.append(op['attr'])
    return '+'.join(parts) if parts else '-'


class Run:
    def __init__(self, trace, prop, gen=None, keep_log=True):
        self.trace = trace
        self.prop = prop
        self.gen = gen
        self.world = World(trace['universe'])
        self.log = core.EventLog(keep=keep_log)
        self.violation = None
        self.other_violations = []
        self.counters = {}
        self.states = set()
        self.transitions = set()
        self.accepted_mutations = 0
        self.faults_fired = 0
        self.steps = 0
        self.alpha_ids = sorted({t['id'] for t in trace['universe']['tasks']}, key=repr) + [0, '0', 'zz']
        self.released = set()
        self.poisoned = 0

    def count(self, k, n=1):
        self.counters[k] = self.counters.get(k, 0) + n

    def run(self):
        w = self.world
        S0 = snapshot(w)
        self.log.add('init', core.hash64(S0))
        first = self.judge_state(S0, None)
        if first:
            raise core.HarnessError(f'initial world violates invariants: {first}')
        ops = self.trace['ops']
        i = 0
        max_ops = self.trace.get('n_ops', len(ops))
        while True:
            if self.gen is not None:
                if i >= max_ops:
                    break
                self.gen.released = self.released
                try:
                    op = self.gen.next_op(S0, w, i)
                except core.HarnessError:
                    raise
                except Exception as e:  # noqa
                    # the state-aware generator presumes a sound graph; on a world that another property's oracle
                    # has already flagged as corrupt it may not find its way: the run simply ends there
                    if self.poisoned:
                        self.count('generator_gave_up_on_corrupt_world')
                        break
                    raise core.HarnessError(f'generator failed on seed {self.trace.get("seed")} step {i}: {type(e).__name__}: {e}')
                ops.append(op)
            else:
                if i >= len(ops):
                    break
                op = ops[i]
            w.step = i
            sig_shape = shape_of(op, S0, w)
            stale = 'stale-handle' in sig_shape
            names = named(op, w, S0)
            out = w.execute(op)
            S1 = snapshot(w)
            h = core.hash64(rel_part(S1))
            self.log.add('step', i, {k: v for k, v in op.items() if k != '_intent'}, list(out)[:2], h)
            self.steps += 1
            if out[0] == 'skip':
                i += 1
                continue
            self.states.add(h)
            intent = op.get('_intent', '?')
            self.transitions.add((op['op'], out[0] if out[0] == 'ok' else out[1], intent))
            self.count(f'op.{op["op"]}.{out[0]}')
            fired = self.fault_fired(op, out, intent, stale)
            changed = gm.diff_snap(S0, S1) is not None
            if out[0] == 'ok' and changed and op['op'] not in ('acquire', 'observe'):
                self.accepted_mutations += 1
            vs = self.judge_step(S0, S1, op, out, names, sig_shape)
            if vs:
                mine = [v for v in vs if v.prop == self.prop]
                if mine:
                    self.violation = mine[0]
                    self.violation.step = i
                    break
                self.other_violations = vs
                self.count('poisoned_by.' + vs[0].prop)
                # C01, C05 and C11 are pure state invariants: whatever state a history reaches must satisfy them,
                # also a state reached after another property was broken, so those runs go on.  The step oracles
                # (C10, C15, C16) compare against a model that presumes a sound pre-state: their runs stop here.
                if self.prop not in ('C01', 'C05', 'C11'):
                    break
                self.poisoned += 1
            # bookkeeping for generator/probes
            self.update_versions(S0, S1)
            for t, d in S1['tasks'].items():
                if t in S0['tasks'] and S0['tasks'][t]['wbs'] is not None and d['wbs'] is None:
                    self.released.add(t)
            if intent == 'reattach' and out[0] == 'ok':
                self.count('probe.reattach_after_removal')
            if w.pairs and out[0] == 'ok' and changed and op['op'] not in ('clone', 'subtree'):
                self.count('probe.mutation_after_clone')
            S0 = S1
            i += 1
        self.end_state = core.hash64(rel_part(S0 if self.violation is None else S1))
        return self

    def fault_fired(self, op, out, intent, stale):
        fired = None
        if intent.startswith('rej.') or intent in ('arg.iter_fail', 'arg.multi_late', 'cb.fail'):
            if out[0] == 'exc':
                fired = intent
        elif intent == 'arg.one_shot':
            fired = intent
        elif intent == 'reattach' and out[0] == 'ok':
            fired = intent
        if stale:
            self.count('fault.handle.stale')
            self.faults_fired += 1
        a = op.get('arg')
        if isinstance(a, dict) and a.get('k') == 'gen' and intent != 'arg.one_shot':
            self.count('fault.arg.one_shot')
        if fired:
            self.count('fault.' + fired)
            self.faults_fired += 1
            if intent == 'arg.multi_late':
                self.count('probe.rejection_after_partial_multi')
        elif intent.startswith('rej.') and out[0] == 'ok':
            self.count('accepted.' + intent)
        return fired

    def update_versions(self, S0, S1):
        w = self.world
        for t, d in S1['tasks'].items():
            o = S0['tasks'].get(t)
            if o is None:
                continue
            if o['children'] != d['children']:
                w.list_ver[(t, 'children')] = w.list_ver.get((t, 'children'), 0) + 1
            if o['preds'] != d['preds']:
                w.list_ver[(t, 'predecessors')] = w.list_ver.get((t, 'predecessors'), 0) + 1
            if o['succs'] != d['succs']:
                w.list_ver[(t, 'successors')] = w.list_ver.get((t, 'successors'), 0) + 1
        for wn, d in S1['wbs'].items():
            o = S0['wbs'].get(wn)
            if o is not None and o['roots'] != d['roots']:
                w.list_ver[(wn, 'roots')] = w.list_ver.get((wn, 'roots'), 0) + 1

    # ---- oracles
    def judge_state(self, S, sig_tail):
        """structural invariants on one snapshot -> list of Violations"""
        vs = []
        tail = sig_tail or 'init'
        r = gm.check_c01(S)
        if r:
            vs.append(core.Violation('C01', r[0], f'C01/{r[0]}/{tail}', r[1]))
        D = None
        if not r or r[0] not in ('own-ancestor', 'getter-failed', 'child-listing'):
            D = derived(self.world, S)
            dr = gm.check_derived(S, D)
            if dr:
                vs.append(core.Violation(dr[0], dr[1], f'{dr[0]}/{dr[1]}/{tail}', dr[2]))
        r5 = gm.check_c05_state(S)
        if r5:
            vs.append(core.Violation('C05', r5[0], f'C05/{r5[0]}/{tail}', r5[1]))
        elif D is not None:
            l5 = self.check_lookup(S)
            if l5:
                vs.append(core.Violation('C05', l5[0], f'C05/{l5[0]}/{tail}', l5[1]))
        r11 = gm.check_c11_state(S, D)
        if r11:
            vs.append(core.Violation('C11', r11[0], f'C11/{r11[0]}/{tail}', r11[1]))
        return vs

    def check_lookup(self, S):
        for wn in S['wbs']:
            w = self.world.wbs[wn]
            members = gm.dfs(S, S['wbs'][wn]['roots'])
            byid = {}
            for m in members:
                byid.setdefault(S['tasks'][m]['id'], m)
            for i in self.alpha_ids:
                try:
                    got = self.world.nm(w[i])
                    exc = None
                except Exception as e:  # noqa
                    got, exc = None, type(e).__name__
                if i in byid:
                    if got != byid[i]:
                        return ('lookup', f'{wn}[{i!r}] gave {got or exc}, the member with that id is {byid[i]}')
                elif exc != 'RuntimeError':
                    return ('lookup', f'{wn}[{i!r}] gave {got or exc}, no member has that id (RuntimeError expected)')
        return None

    def judge_step(self, S0, S1, op, out, names, shape):
        k = op['op']
        tail = f'{k}/{shape}'
        vs = self.judge_state(S1, tail)
        if out[0] == 'exc':
            if k not in MUTATORS_NOT_JUDGED_C15:
                d = gm.diff_snap(S0, S1)
                if d:
                    vs.append(core.Violation('C15', 'state-changed', f'C15/state-changed/{tail}',
                                             f'{k} raised {out[1]} but {d}'))
            # C05: a call that would create a duplicate id must be rejected with RuntimeError
            try:
                M = gm.predict(S0, op, self.world, None)
            except core.HarnessError:
                raise
            if M is not None and not M.unconstrained:
                wf, why = gm.model_wellformed(M)
                if not wf and why == 'dup' and out[1] != 'RuntimeError' and gm.check_c01(M.as_snapshot()) is None:
                    vs.append(core.Violation('C05', 'dup-wrong-exception', f'C05/dup-wrong-exception/{tail}',
                                             f'{k} would create a duplicate id and raised {out[1]}, not RuntimeError'))
                if wf and self.is_plain_reattach(S0, op, M):
                    vs.append(core.Violation('C11', 'reattach-rejected', f'C11/reattach-rejected/{tail}',
                                             f'{k} of a removed task into another WBS raised {out[1]}: {out[2]}'))
        else:
            M = gm.predict(S0, op, self.world, out[1])
            if M is not None:
                wf, why = gm.model_wellformed(M)
                if wf:
                    r = gm.compare_with_model(S1, M, S0, op)
                    if r:
                        vs.append(core.Violation('C16', r[0], f'C16/{r[0]}/{tail}', r[1]))
                else:
                    self.count('accepted_illformed.' + str(why))
            if k in ('clone', 'subtree'):
                if k == 'clone':
                    sel = list(S0['wbs'][op['w']]['roots'])
                else:
                    sel = [n for n in op['arg'].get('items', []) if n in S0['tasks']]
                    if op['arg']['k'] == 'single':
                        sel = sel[:1]
                if self.copy_in_domain(S0, op, sel):
                    r = gm.check_copy(self.world, S0, S1, op, sel)
                    if r:
                        vs.append(core.Violation('C10', r[0], f'C10/{r[0]}/{tail}', r[1]))
                    self.count('probe.copy_judged')
        # C10 independence: an operation naming only one side leaves the other side untouched
        if k not in ('clone', 'subtree'):
            for pair, a_side, b_side in gm.sides(self.world, S0):
                for mine, other, label in ((a_side, b_side, 'copy'), (b_side, a_side, 'source')):
                    if names and names <= mine:
                        # tasks the user linked across the two sides legitimately see the mirror update
                        cross = set()
                        for nme in names:
                            if nme in S0['tasks']:
                                cross.update(S0['tasks'][nme]['preds'] + S0['tasks'][nme]['succs'])
                            if nme in S1['tasks']:
                                cross.update(S1['tasks'][nme]['preds'] + S1['tasks'][nme]['succs'])
                        for t in other:
                            if t in cross:
                                continue
                            if t in S0['tasks'] and t in S1['tasks'] and S0['tasks'][t] != S1['tasks'][t]:
                                vs.append(core.Violation(
                                    'C10', 'not-independent', f'C10/not-independent/{tail}',
                                    f'{k} on the {"source" if label == "copy" else "copy"} side changed {t} on the {label} side'))
                                break
                        for wn in other:
                            if wn in S0['wbs'] and S0['wbs'][wn] != S1['wbs'].get(wn):
                                vs.append(core.Violation('C10', 'not-independent', f'C10/not-independent/{tail}',
                                                         f'{k} changed {wn} on the {label} side'))
                        self.count('probe.independence_judged')
        return vs

    def copy_in_domain(self, S0, op, sel):
        """clone: always.  subtree: non-empty antichain of members of the source WBS."""
        w = op['w']
        members = gm.dfs(S0, S0['wbs'][w]['roots'])
        if op['op'] == 'clone':
            return True
        if not sel or len(set(sel)) != len(sel):
            return False
        for s in sel:
            if s not in members:
                return False
            if any(s in gm.descendants(S0, o) for o in sel if o != s):
                return False
        return op['arg']['k'] in ('list', 'tuple', 'single', 'gen')

    def is_plain_reattach(self, S0, op, M):
        """a previously removed task (root of a detached tree) is attached, on its own, into a
        WBS by one of the single-task attachment calls"""
        k = op['op']
        t = None
        if k == 'set_parent' and op['p'] is not None:
            t, tgt = op['t'], op['p']
        elif k == 'l_append' and (op['via'].get('what') in ('children', 'roots')) and not op['via'].get('h'):
            t, tgt = op['t'], op['via']['on']
        elif k in ('floordiv', 'iadd_children') and op['arg']['k'] in ('list', 'tuple', 'single') and len(op['arg']['items']) == 1:
            t, tgt = op['arg']['items'][0], op['on']
        if t is None or t not in self.released or t not in S0['tasks']:
            return False
        if S0['tasks'][t]['parent'] is not None or S0['tasks'][t]['wbs'] is not None:
            return False
        tw = tgt if tgt in S0['wbs'] else S0['tasks'].get(tgt, {}).get('wbs')
        return tw is not None


def rel_part(S):
    return {'t': {n: [d['id'], d['parent'], d['children'], sorted(d['preds']), sorted(d['succs']), d['wbs']]
                  for n, d in S['tasks'].items()},
            'w': {n: d['roots'] for n, d in S['wbs'].items()}}


# --------------------------------------------------------------------------- entry points

def new_trace(seed, quarantine=()):
    st = core.Streams(seed)
    universe = ggen.make_universe(st('shape'))
    cfg = ggen.make_config(st('shape'))
    trace = {'machine': 'graph', 'seed': seed, 'universe': universe, 'ops': [], 'n_ops': cfg['n_ops'], 'cfg': cfg}
    gen = ggen.Gen(st, universe, cfg, quarantine)
    return trace, gen


def run_seed(seed, prop, quarantine=(), keep_log=False):
    trace, gen = new_trace(seed, quarantine)
    r = Run(trace, prop, gen, keep_log=keep_log).run()
    return r


def replay(trace, prop, keep_log=False):
    t = dict(trace)
    t['ops'] = [dict(o) for o in trace['ops']]
    return Run(t, prop, None, keep_log=keep_log).run()


def shrink(trace, prop, clause):
    """delta-debug the operation list, then the universe; same property + clause must persist"""
    def fails(ops, universe=None):
        t = {'machine': 'graph', 'seed': trace['seed'], 'universe': universe or trace['universe'], 'ops': ops}
        try:
            r = replay(t, prop)
        except core.HarnessError:
            return False
        return r.violation is not None and r.violation.clause == clause

    ops = [dict(o) for o in trace['ops']]
    # cut everything after the failing step first
    r = replay(dict(trace, ops=ops), prop)
    if r.violation is not None and r.violation.step is not None:
        ops = ops[:r.violation.step + 1]
    ops = core.ddmin(ops, lambda o: fails(o))
    # simplify argument kinds
    for o in ops:
        a = o.get('arg')
        if isinstance(a, dict) and a.get('k') in ('tuple', 'gen'):
            old = a['k']
            a['k'] = 'list'
            if not fails(ops):
                a['k'] = old
    # drop tasks / WBSs of the universe that are not needed
    uni = _copy.deepcopy(trace['universe'])
    for key in ('tasks', 'wbs'):
        items = list(uni[key])
        for it in list(items):
            if len(items) <= (1 if key == 'wbs' else 1):
                break
            trial = [x for x in items if x is not it]
            u2 = dict(uni, **{key: trial})
            if fails(ops, u2):
                items = trial
                uni = u2
    # strip optional keyword noise from remaining tasks
    for t in uni['tasks']:
        for kk in list(t.get('kw', {})):
            saved = t['kw'].pop(kk)
            if not fails(ops, uni):
                t['kw'][kk] = saved
    out = {'machine': 'graph', 'seed': trace['seed'], 'universe': uni, 'ops': ops}
    return out


def chunk(payload):
    core.TIER = payload.get('tier', 'quick')
    """worker: run a list of seeds, return an Agg"""
    prop, seeds, quarantine = payload['prop'], payload['seeds'], payload['quarantine']
    agg = core.Agg()
    for seed in seeds:
        r = run_seed(seed, prop, quarantine)
        agg.runs += 1
        agg.ops += r.steps
        for k, v in r.counters.items():
            agg.counters[k] += v
        agg.states |= r.states
        agg.transitions |= r.transitions
        if r.accepted_mutations >= 1 and r.faults_fired >= 1:
            agg.end_states.add(r.end_state)
        if r.violation is not None:
            agg.violations.append((seed, r.violation.as_dict()))
        if len(agg.samples) < 3 and r.steps >= 3:
            agg.samples.append({'seed': seed, 'ops': [{k: v for k, v in o.items() if k != '_intent'} for o in r.trace['ops'][:8]]})
    return agg


def regenerate(seed, prop, quarantine=()):
    r = run_seed(seed, prop, quarantine)
    t = r.trace
    return {'machine': 'graph', 'seed': seed, 'universe': t['universe'], 'ops': t['ops']}


TIER_RUNS = {
    'quick': {'default': 20000},
    'thorough': {'default': 500000},
}

# known-finding signature -> generator quarantine flags (shapes that are not generated in bulk)
QUARANTINE_OF = {
    'C15/state-changed/q_setattr/parent': ['bulk-partial'],
    'C15/state-changed/q_lshift/-': ['bulk-partial'],
}

ASSUMPTIONS = {
    'default': [
        'sampling by seed: a clean batch is evidence, not proof; quick: worlds of <= 12 initial tasks, <= 3 WBS, <= 40 operations; thorough: <= 16 tasks, <= 60 operations',
        'the state is observed through public getters only (parent, children, predecessors, successors, wbs, all_parents, all_children, to_dict, WBS.roots/tasks/[id])',
        'custom attribute values are immutable scalars; threads are not simulated (the library makes no thread-safety claim)',
        'the reference model encodes the documented effect of an ACCEPTED call only; it never predicts acceptance except where the property states it',
    ],
}

RULE = ('one run = seeded universe (5-12 tasks sharing a small id alphabet, 1-3 WBS) + seeded swarm configuration + '
        '5-40 operations by simulated clients over the full mutator alphabet with injected faults (rejection classes, '
        'failing/one-shot iterators, failing predicates, stale handles, re-attachment); every oracle is evaluated on a '
        'full public-getter snapshot after every step. distinct_nontrivial = distinct end-of-run relational states among '
        'runs with >=1 accepted mutation and >=1 fired fault.')


def coverage(prop, agg, tier, wall, workers):
    c = agg.counters
    faults = {k[len('fault.'):]: v for k, v in sorted(c.items()) if k.startswith('fault.')}
    probes = {k[len('probe.'):]: v for k, v in sorted(c.items()) if k.startswith('probe.')}
    return {
        'evaluations': agg.runs,
        'distinct_nontrivial': len(agg.end_states),
        'rule': RULE,
        'samples': agg.samples[:4],
        'operations_executed': agg.ops,
        'states': len(agg.states),
        'transitions': len(agg.transitions),
        'distinct_states_measure': 'blake2b-64 of the relational part of the public snapshot after each step',
        'faults_fired': faults,
        'probes': probes,
        'accepted_although_aimed_at_rejection': {k[len('accepted.'):]: v for k, v in sorted(c.items()) if k.startswith('accepted.')},
        'runs_stopped_by_other_property': {k[len('poisoned_by.'):]: v for k, v in sorted(c.items()) if k.startswith('poisoned_by.')},
        'op_outcomes': {k[len('op.'):]: v for k, v in sorted(c.items()) if k.startswith('op.')},
        'runs_per_hour': int(agg.runs / wall * 3600) if wall > 0 else 0,
        'seeds_per_hour': int(agg.runs / wall * 3600) if wall > 0 else 0,
        'simulated_time_covered_s': 0,
        'simulated_time_note': 'the graph machine has no clock; its time axis is the operation index',
        'workers': workers,
    }
