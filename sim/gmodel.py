"""Graph machine, part 2: structural invariants (C01, C05, C11), the reference model of the
documented effect of every mutator (C16), the rejected-call oracle (C15) and the
clone/subtree oracle (C10).  Everything works on snapshots (plain dicts of names)."""
import copy as _copy

from . import core


# --------------------------------------------------------------------------- helpers on snapshots

def owner_lists(S):
    """owner name -> children list; WBS names own their root lists"""
    ch = {n: list(d['children']) for n, d in S['tasks'].items()}
    for w, d in S['wbs'].items():
        ch[w] = list(d['roots'])
    return ch


def ancestors(S, t):
    """own parent-chain walk; returns (list, cyclic?)"""
    out, seen = [], {t}
    p = S['tasks'][t]['parent']
    while p is not None and p in S['tasks']:
        if p in seen:
            return out, True
        out.append(p)
        seen.add(p)
        p = S['tasks'][p]['parent']
    return out, False


def descendants(S, t):
    out, stack, seen = [], list(reversed(S['tasks'][t]['children'])), {t}
    while stack:
        c = stack.pop()
        if c in seen or c not in S['tasks']:
            continue
        seen.add(c)
        out.append(c)
        stack.extend(reversed(S['tasks'][c]['children']))
    return out


def dfs(S, roots):
    out, seen = [], set()

    def go(x):
        if x in seen or x not in S['tasks']:
            return
        seen.add(x)
        out.append(x)
        for c in S['tasks'][x]['children']:
            go(c)
    for r in roots:
        go(r)
    return out


def tree_root(S, t):
    seen = {t}
    while True:
        p = S['tasks'][t]['parent']
        if p is None or p not in S['tasks'] or p in seen:
            return t
        seen.add(p)
        t = p


def hierarchy_cyclic(S):
    for t in S['tasks']:
        if ancestors(S, t)[1]:
            return True
    # child-list cycles not visible through parent pointers
    for t in S['tasks']:
        stack, seen = list(S['tasks'][t]['children']), set()
        while stack:
            c = stack.pop()
            if c == t:
                return True
            if c in seen or c not in S['tasks']:
                continue
            seen.add(c)
            stack.extend(S['tasks'][c]['children'])
    return False


def bad_names(S):
    for n, d in S['tasks'].items():
        for k in ('parent', 'wbs'):
            if isinstance(d[k], str) and d[k].startswith(('!', '?')):
                return f'{n}.{k}={d[k]}'
        for k in ('children', 'preds', 'succs'):
            for x in d[k]:
                if x is None or x.startswith(('!', '?')):
                    return f'{n}.{k} contains {x}'
    return None


# --------------------------------------------------------------------------- C01

def check_c01(S):
    """returns (clause, detail) or None"""
    T = S['tasks']
    b = bad_names(S)
    if b:
        return ('getter-failed', b)
    ch = owner_lists(S)
    for t, d in T.items():
        p = d['parent']
        occ = sum(ch[q].count(t) for q in T)
        rocc = sum(ch[w].count(t) for w in S['wbs'])
        if p is not None:
            if ch[p].count(t) != 1 or occ != 1:
                return ('child-listing', f'{t} reports parent {p} but is listed {ch[p].count(t)}x there, {occ}x overall')
            if rocc:
                return ('child-listing', f'{t} has parent {p} and is also a WBS root')
        else:
            if occ:
                holders = [q for q in T if t in ch[q]]
                return ('child-listing', f'{t} reports no parent but is listed under {holders}')
            if rocc > 1:
                return ('child-listing', f'{t} is listed {rocc}x among WBS roots')
        for c in d['children']:
            if T[c]['parent'] != t:
                return ('child-listing', f'{t} lists child {c} whose parent is {T[c]["parent"]}')
    for w, wd in S['wbs'].items():
        for r in wd['roots']:
            if T[r]['parent'] is not None:
                return ('child-listing', f'{w} lists root {r} whose parent is {T[r]["parent"]}')
    for t in T:
        if ancestors(S, t)[1] or t in ancestors(S, t)[0]:
            return ('own-ancestor', f'{t} is its own ancestor')
    if hierarchy_cyclic(S):
        return ('own-ancestor', 'cycle in the child lists')
    for t, d in T.items():
        for p in d['preds']:
            if t not in T[p]['succs']:
                return ('asymmetric-link', f'{t} lists predecessor {p}, which does not list {t} as successor')
        for s in d['succs']:
            if t not in T[s]['preds']:
                return ('asymmetric-link', f'{t} lists successor {s}, which does not list {t} as predecessor')
        if t in d['preds'] or t in d['succs']:
            return ('self-link', f'{t} is linked to itself')
    # dependency cycle (own DFS)
    color = {}
    for start in T:
        if start in color:
            continue
        stack = [(start, iter(T[start]['preds']))]
        color[start] = 1
        while stack:
            node, it = stack[-1]
            nxt = next(it, None)
            if nxt is None:
                color[node] = 2
                stack.pop()
                continue
            c = color.get(nxt)
            if c == 1:
                return ('dependency-cycle', f'dependency cycle through {nxt}')
            if c is None:
                color[nxt] = 1
                stack.append((nxt, iter(T[nxt]['preds'])))
    for t, d in T.items():
        anc = set(ancestors(S, t)[0])
        for x in d['preds'] + d['succs']:
            if x in anc:
                return ('ancestor-link', f'{t} is linked with its ancestor {x}')
    return None


# --------------------------------------------------------------------------- C05 / C11 (structure part)

def trees(S):
    """name -> list of member names for every WBS and every detached tree (own traversal)"""
    out = {}
    in_wbs = set()
    for w, wd in S['wbs'].items():
        out[w] = dfs(S, wd['roots'])
        in_wbs.update(out[w])
    for t, d in S['tasks'].items():
        if d['parent'] is None and t not in in_wbs:
            out['tree:' + t] = dfs(S, [t])
    return out


def check_c05_state(S):
    T = S['tasks']
    for name, members in trees(S).items():
        seen = {}
        for m in members:
            i = T[m]['id']
            if i in seen:
                return ('duplicate-id', f'{seen[i]} and {m} share id {i!r} inside {name}')
            seen[i] = m
    return None


def check_c11_state(S, D):
    T = S['tasks']
    reach = {w: dfs(S, wd['roots']) for w, wd in S['wbs'].items()}
    for t, d in T.items():
        for w in S['wbs']:
            inw = t in reach[w]
            rep = d['wbs'] == w
            if inw and not rep:
                return ('owner-mismatch', f'{t} is reachable from {w} but reports owner {d["wbs"]}')
            if rep and not inw:
                return ('owner-mismatch', f'{t} reports owner {w} but is not reachable from its roots')
        if d['wbs'] is not None and d['wbs'] not in S['wbs']:
            return ('owner-mismatch', f'{t} reports unknown owner {d["wbs"]}')
    if D is not None:
        for w in S['wbs']:
            if sorted(D['wtasks'][w]) != sorted(reach[w]):
                return ('owner-mismatch', f'{w}.tasks={D["wtasks"][w]} differs from reachable set {reach[w]}')
    return None


def check_derived(S, D):
    """the derived getters agree with the direct relations (used under C01 for all_parents /
    all_children and under C05 for WBS.tasks order)"""
    for t in S['tasks']:
        if D['all_parents'][t] != ancestors(S, t)[0]:
            return ('C01', 'derived-getter', f'{t}.all_parents={D["all_parents"][t]} but parent chain is {ancestors(S, t)[0]}')
        if D['all_children'][t] != descendants(S, t):
            return ('C01', 'derived-getter', f'{t}.all_children={D["all_children"][t]} but child lists give {descendants(S, t)}')
    for w, wd in S['wbs'].items():
        if D['wtasks'][w] != dfs(S, wd['roots']):
            return ('C05', 'tasks-order', f'{w}.tasks={D["wtasks"][w]} but depth-first order is {dfs(S, wd["roots"])}')
    return None


# --------------------------------------------------------------------------- reference model

class Model:
    """Relational model of the documented effect of an accepted call.  It never predicts
    acceptance; `loose` / `alts` mark what the documentation leaves open."""

    def __init__(self, S):
        self.parent = {t: d['parent'] for t, d in S['tasks'].items()}
        self.ch = owner_lists(S)
        self.preds = {t: list(d['preds']) for t, d in S['tasks'].items()}
        self.succs = {t: list(d['succs']) for t, d in S['tasks'].items()}
        self.wbs = {t: d['wbs'] for t, d in S['tasks'].items()}
        self.ids = {t: d['id'] for t, d in S['tasks'].items()}
        self.fields = {t: dict(d['fields']) for t, d in S['tasks'].items()}
        self.wnames = set(S['wbs'])
        self.alts = {}        # owner -> list of acceptable child lists
        self.anyorder = set()  # owners whose order is not determined by the documentation
        self.new_tasks = {}   # name -> True for tasks the op creates (fields unconstrained here)
        self.unconstrained = False
        self.new_prefix = None
        self.released = set()

    # -- primitives
    def subtree(self, x):
        out, stack = [], [x]
        seen = set()
        while stack:
            c = stack.pop()
            if c in seen:
                continue
            seen.add(c)
            out.append(c)
            stack.extend(self.ch.get(c, []))
        return out

    def owner_of(self, x):
        p = self.parent.get(x)
        if p is not None:
            return p
        w = self.wbs.get(x)
        if w is not None and x in self.ch.get(w, []):
            return w
        return None

    def detach(self, x):
        o = self.owner_of(x)
        if o is not None and x in self.ch[o]:
            self.ch[o].remove(x)
        self.parent[x] = None

    def release(self, x):
        self.detach(x)
        for s in self.subtree(x):
            self.wbs[s] = None
            self.released.add(s)

    def adopt(self, x, owner, pos=None):
        self.detach(x)
        lst = self.ch[owner]
        if pos is None or pos > len(lst):
            pos = len(lst)
        lst.insert(pos, x)
        if owner in self.wnames:
            self.parent[x] = None
            w = owner
        else:
            self.parent[x] = owner
            w = self.wbs[owner]
        if w is not None:
            for s in self.subtree(x):
                self.wbs[s] = w

    def set_children(self, owner, items):
        items = [i for i in items if i is not None]
        old = list(self.ch[owner])
        ded_first = []
        for i in items:
            if i not in ded_first:
                ded_first.append(i)
        ded_last = []
        for i in reversed(items):
            if i not in ded_last:
                ded_last.insert(0, i)
        for o in old:
            if o not in items:
                self.release(o)
        for o in list(self.ch[owner]):
            self.ch[owner].remove(o)
        for i in ded_first:
            self.adopt(i, owner)
        if ded_first != ded_last:
            self.alts[owner] = [list(ded_first), list(ded_last)]

    def set_links(self, t, items, side):
        items = [i for i in items if i is not None]
        mine, theirs = (self.preds, self.succs) if side == 'preds' else (self.succs, self.preds)
        for o in list(mine[t]):
            if t in theirs[o]:
                theirs[o].remove(t)
        mine[t] = list(items)
        for i in items:
            if t not in theirs[i]:
                theirs[i].append(t)

    # -- state export
    def state(self):
        return {'parent': self.parent, 'ch': self.ch, 'preds': self.preds, 'succs': self.succs, 'wbs': self.wbs}

    def as_snapshot(self):
        T = {}
        for t in self.parent:
            T[t] = {'id': self.ids.get(t), 'parent': self.parent[t], 'children': list(self.ch.get(t, [])),
                    'preds': list(self.preds.get(t, [])), 'succs': list(self.succs.get(t, [])),
                    'wbs': self.wbs.get(t), 'fields': self.fields.get(t, {})}
        W = {w: {'roots': list(self.ch[w]), 'attrs': {}} for w in self.wnames}
        return {'tasks': T, 'wbs': W}


def _arg_items(op_arg, S):
    """names an iterable argument yields (None entries kept as None); (items, usable)"""
    if op_arg is None:
        return [], True
    k = op_arg['k']
    if k == 'none':
        return [], True
    if k in ('int', 'str', 'obj'):
        return [], False
    items = [n for n in op_arg.get('items', []) if n is None or n in S['tasks']]
    if k == 'single':
        return (items[:1] if items else []), True
    if k == 'iter_fail':
        return items, False  # the call cannot legitimately return with all items
    return items, True


def resolve_via(v, world, S):
    """-> (owner, what, handle record or None)"""
    if v.get('h'):
        h = world.handles.get(v['h'])
        if not h:
            return None, None, None
        return h['on'], h['what'], h
    return v['on'], v['what'], None


def flt_match(flt, name, S):
    return S['tasks'][name]['id'] in set(flt['ids'])


def predict(S, op, world, result):
    """Model post-state for an operation that RETURNED.  Returns a Model, or None when the
    documentation determines nothing for this call (only invariants apply)."""
    M = Model(S)
    T = S['tasks']
    k = op['op']

    def known(n):
        return n is None or n in T

    if k == 'set_parent':
        t, p = op['t'], op['p']
        if not known(t) or not known(p):
            return None
        if p is None:
            w = M.wbs[t]
            if w is not None:
                was_root = M.parent[t] is None
                before = list(M.ch[w])
                M.adopt(t, w)
                if was_root:
                    M.alts[w] = [before, list(M.ch[w])]
            else:
                M.detach(t)
        else:
            same = M.parent[t] == p
            before = list(M.ch[p])
            M.adopt(t, p)
            if same:
                M.alts[p] = [before, list(M.ch[p])]
        return M

    if k in ('set_children', 'iadd_children', 'floordiv'):
        on = op['on']
        items, usable = _arg_items(op['arg'], S)
        if not usable or on not in M.ch:
            return None
        if k == 'set_children':
            M.set_children(on, items)
        else:
            M.set_children(on, list(M.ch[on]) + items)
        return M

    if k in ('l_append', 'l_insert', 'l_remove', 'l_move', 'l_sort', 'l_reorder', 'l_remove_all'):
        owner, what, h = resolve_via(op['via'], world, S)
        if owner is None or owner not in M.ch and what in ('children', 'roots'):
            return None
        if what in ('children', 'roots'):
            lst = M.ch[owner]
            if k == 'l_append':
                t = op['t']
                if t is None or t not in T:
                    return None
                same = t in lst
                before = list(lst)
                M.adopt(t, owner)
                if same:
                    # "appends task to the end"; documentation allows no other reading
                    pass
                return M
            if k == 'l_insert':
                t, i = op['t'], op['i']
                if t is None or t not in T:
                    return None
                old = list(lst)
                if t in old:
                    # insert of an existing member: documentation is silent on the position
                    M.anyorder.add(owner)
                    return M
                n = len(old)
                if -n <= i < n:
                    pos = i if i >= 0 else n + i
                    M.adopt(t, owner, pos)
                elif i == n:
                    M.adopt(t, owner, n)
                else:
                    # index outside the list: if the call returns, only membership is fixed
                    M.adopt(t, owner)
                    M.anyorder.add(owner)
                return M
            if k == 'l_remove':
                t = op['t']
                if t is None or t not in T:
                    return None
                if t in lst:
                    M.release(t)
                return M
            if k == 'l_move':
                items, usable = _arg_items(op['arg'], S)
                if not usable:
                    return None
                items = [i for i in items if i is not None]
                anchor = op.get('before') or op.get('after')
                if anchor is None or anchor in items or len(set(items)) != len(items):
                    M.anyorder.add(owner)
                    return M
                rest = [x for x in lst if x not in items]
                if anchor not in rest or any(i not in lst for i in items):
                    return None  # should have been rejected; invariants still apply
                ai = rest.index(anchor)
                import itertools
                alts = []
                for perm in itertools.permutations(items):
                    if op.get('before'):
                        alts.append(rest[:ai] + list(perm) + rest[ai:])
                    else:
                        alts.append(rest[:ai + 1] + list(perm) + rest[ai + 1:])
                    if len(alts) >= 24:
                        break
                M.ch[owner] = alts[0]
                if len(alts) > 1:
                    M.alts[owner] = alts
                return M
            if k == 'l_sort':
                key = op['key']
                def kv(n):
                    if isinstance(key, str):
                        return T[n]['id'] if key == 'id' else T[n]['fields'][key]
                    return '-'.join(str(T[n]['id'] if kk == 'id' else T[n]['fields'][kk]) for kk in key)
                try:
                    M.ch[owner] = sorted(lst, key=kv, reverse=bool(op.get('reverse')))
                except Exception:  # noqa  (uncomparable / missing: the call should not have returned)
                    return None
                return M
            if k == 'l_reorder':
                ids = list(op['ids'])
                first = []
                for i in ids:
                    m = [x for x in lst if T[x]['id'] == i]
                    if not m or m[0] in first:
                        return None
                    first.append(m[0])
                M.ch[owner] = first + [x for x in lst if x not in first]
                return M
            if k == 'l_remove_all':
                flt = op['flt']
                if flt.get('fail_at') is not None:
                    return None
                for x in list(lst):
                    if flt_match(flt, x, S):
                        M.release(x)
                return M
        elif what in ('predecessors', 'successors'):
            if owner not in T:
                return None
            side = 'preds' if what == 'predecessors' else 'succs'
            cur = getattr(M, side)[owner]
            if k == 'l_append':
                t = op['t']
                if t is None or t not in T:
                    return None
                M.set_links(owner, list(cur) + [t], side)
                return M
            if k == 'l_remove':
                t = op['t']
                if t is None or t not in T:
                    return None
                M.set_links(owner, [x for x in cur if x != t], side)
                return M
            if k == 'l_remove_all':
                flt = op['flt']
                if flt.get('fail_at') is not None:
                    return None
                M.set_links(owner, [x for x in cur if not flt_match(flt, x, S)], side)
                return M
            return None
        return None

    if k in ('set_preds', 'set_succs', 'iadd_preds', 'iadd_succs', 'lshift', 'rshift'):
        t = op['t']
        items, usable = _arg_items(op['arg'], S)
        if not usable or t not in T:
            return None
        side = 'preds' if k in ('set_preds', 'iadd_preds', 'lshift') else 'succs'
        if k.startswith('set_'):
            M.set_links(t, items, side)
        else:
            M.set_links(t, list(getattr(M, side)[t]) + items, side)
        return M

    if k in ('q_lshift', 'q_rshift', 'q_setattr'):
        q = op['q']
        if q.get('h'):
            h = world.handles.get(q['h'])
            if not h:
                return None
            members = [m for m in h['members'] if m in T]
        else:
            src = None
            if q['what'] in ('children', 'roots'):
                src = M.ch.get(q['on'])
            elif q['what'] in ('tasks', 'all_children'):
                src = dfs(S, S['wbs'][q['on']]['roots']) if q['on'] in S['wbs'] else (
                    descendants(S, q['on']) if q['on'] in T else None)
            if src is None:
                return None
            members = [m for m in src if q.get('ids') is None or T[m]['id'] in set(q['ids'])]
        if k in ('q_lshift', 'q_rshift'):
            items, usable = _arg_items(op['arg'], S)
            if not usable:
                return None
            side = 'preds' if k == 'q_lshift' else 'succs'
            for m in members:
                M.set_links(m, list(getattr(M, side)[m]) + items, side)
            return M
        attr = op['attr']
        if attr == 'parent':
            p = op['value']
            for m in members:
                if p is None:
                    w = M.wbs[m]
                    if w is not None:
                        M.adopt(m, w)
                        M.anyorder.add(w)
                    else:
                        M.detach(m)
                else:
                    if p not in T:
                        return None
                    if M.parent[m] == p:
                        M.anyorder.add(p)
                    M.adopt(m, p)
            return M
        if attr in ('predecessors', 'successors'):
            items, usable = _arg_items(op['value'], S)
            if not usable:
                return None
            for m in members:
                M.set_links(m, items, 'preds' if attr == 'predecessors' else 'succs')
            return M
        if attr == 'children':
            return None
        for m in members:
            M.fields[m][attr] = op['value']
        return M

    if k == 'w_remove':
        w, t = op['w'], op['t']
        if t is None or t not in T or w not in S['wbs']:
            return None
        if t in dfs(S, S['wbs'][w]['roots']):
            M.release(t)
        return M

    if k == 'w_remove_all':
        w, flt = op['w'], op['flt']
        if w not in S['wbs'] or flt.get('fail_at') is not None:
            return None
        members = dfs(S, S['wbs'][w]['roots'])
        matched = [m for m in members if flt_match(flt, m, S)]
        for m in matched:
            anc = ancestors(S, m)[0]
            if not any(a in matched for a in anc):
                M.release(m)
        return M

    if k == 'new_task':
        name = op['as']
        if name in T:
            return None
        kw = op.get('kw', {})
        M.parent[name] = None
        M.ch[name] = []
        M.preds[name] = []
        M.succs[name] = []
        M.wbs[name] = None
        M.ids[name] = op['id']
        M.new_tasks[name] = True
        if kw.get('parent') is not None:
            if kw['parent'] not in T:
                return None
            M.adopt(name, kw['parent'])
        if kw.get('children') is not None:
            items, usable = _arg_items(kw['children'], S)
            if not usable:
                return None
            M.set_children(name, items)
        if kw.get('successors') is not None:
            items, usable = _arg_items(kw['successors'], S)
            if not usable:
                return None
            if items:
                M.set_links(name, items, 'succs')
        if kw.get('predecessors') is not None:
            items, usable = _arg_items(kw['predecessors'], S)
            if not usable:
                return None
            if items:
                M.set_links(name, items, 'preds')
        return M

    if k in ('new_wbs', 'clone', 'subtree'):
        # creation of copies: the copies themselves are judged by the C10 oracle; the frame
        # still applies, except that outside tasks gain the mirror links to the copies
        M.unconstrained = True
        M.new_prefix = op['as'] + ':'
        return M

    if k == 'w_setattr':
        M.wattr = (op['w'], op['attr'], op['value'])
        return M

    if k in ('acquire', 'observe'):
        return M  # pure observers: nothing may change

    raise core.HarnessError(f'model: unknown op {k}')


def compare_with_model(S_post, M, S_pre, op):
    """C16: returns (clause, detail) or None"""
    T = S_post['tasks']
    ch_real = owner_lists(S_post)
    newly = set(T) - set(S_pre['tasks'])
    for t in M.parent:
        if t not in T:
            return ('effect', f'model expects task {t} to exist')
        d = T[t]
        if t in newly and M.unconstrained:
            continue
        if d['parent'] != M.parent[t]:
            return ('effect-parent', f'{t}.parent is {d["parent"]}, documented effect gives {M.parent[t]}')
        if d['wbs'] != M.wbs[t]:
            return ('effect-owner', f'{t}.wbs is {d["wbs"]}, documented effect gives {M.wbs[t]}')
        if M.unconstrained and M.new_prefix:
            d = dict(d, preds=[x for x in d['preds'] if x not in newly], succs=[x for x in d['succs'] if x not in newly])
        if set(d['preds']) != set(M.preds[t]):
            return ('effect-links', f'{t}.predecessors is {d["preds"]}, documented effect gives {M.preds[t]}')
        if set(d['succs']) != set(M.succs[t]):
            return ('effect-links', f'{t}.successors is {d["succs"]}, documented effect gives {M.succs[t]}')
        if t not in M.new_tasks and t in S_pre['tasks']:
            if d['fields'] != M.fields[t]:
                return ('frame-fields', f'{t} fields changed: {d["fields"]} expected {M.fields[t]}')
    for owner, exp in M.ch.items():
        real = ch_real.get(owner)
        if real is None:
            return ('effect', f'model expects list owner {owner}')
        if owner in newly and M.unconstrained:
            continue
        if owner in M.anyorder:
            if sorted(real) != sorted(exp):
                return ('effect-list', f'{owner} children are {real}, documented effect gives the set {sorted(exp)}')
            continue
        if owner in M.alts:
            if real not in M.alts[owner]:
                return ('effect-list', f'{owner} children are {real}, documented effect allows {M.alts[owner]}')
            continue
        if real != exp:
            clause = 'effect-list' if sorted(real) != sorted(exp) or owner_touched(op, owner) else 'frame-order'
            return (clause, f'{owner} children are {real}, documented effect gives {exp}')
    if not M.unconstrained:
        extra = newly - set(M.parent)
        if extra:
            return ('effect', f'unexpected new tasks {sorted(extra)}')
    for w, wd in S_post['wbs'].items():
        if w in S_pre['wbs']:
            exp = dict(S_pre['wbs'][w]['attrs'])
            if getattr(M, 'wattr', None) and M.wattr[0] == w:
                exp[M.wattr[1]] = M.wattr[2]
            if wd['attrs'] != exp:
                return ('frame-fields', f'{w} attributes are {wd["attrs"]}, expected {exp}')
    return None


def owner_touched(op, owner):
    v = op.get('via')
    if v and v.get('on') == owner:
        return True
    return op.get('on') == owner or op.get('p') == owner


def model_wellformed(M):
    """Is the documented post-state itself a legal graph?  If not, the call should have been
    rejected and C16 does not judge it (C01/C05/C11 judge the real state instead)."""
    S = M.as_snapshot()
    if check_c01(S) is not None:
        return False, 'c01'
    if check_c05_state(S) is not None:
        return False, 'dup'
    if check_c11_state(S, None) is not None:
        return False, 'c11'
    return True, None


# --------------------------------------------------------------------------- C15

def diff_snap(A, B):
    """first difference between two snapshots (exact, including order) or None"""
    for t in A['tasks']:
        if t not in B['tasks']:
            return f'task {t} vanished'
        a, b = A['tasks'][t], B['tasks'][t]
        for k in ('parent', 'children', 'preds', 'succs', 'wbs', 'fields', 'id'):
            if a[k] != b[k]:
                return f'{t}.{k}: {a[k]} -> {b[k]}'
    for t in B['tasks']:
        if t not in A['tasks']:
            return f'task {t} appeared'
    for w in A['wbs']:
        if w not in B['wbs']:
            return f'wbs {w} vanished'
        if A['wbs'][w] != B['wbs'][w]:
            return f'{w}: {A["wbs"][w]} -> {B["wbs"][w]}'
    for w in B['wbs']:
        if w not in A['wbs']:
            return f'wbs {w} appeared'
    return None


# --------------------------------------------------------------------------- C10

def check_copy(world, S_pre, S_post, op, selected_roots):
    """at-call oracle for clone/subtree; returns (clause, detail) or None"""
    src_w, new_w = op['w'], op['as']
    T0, T1 = S_pre['tasks'], S_post['tasks']
    if new_w not in S_post['wbs']:
        return ('copy-missing', f'{new_w} not created')
    pair = [p for p in world.pairs if p['copy'] == new_w]
    if not pair:
        return ('copy-missing', 'no pair recorded')
    cmap = pair[0]['map']           # copy name -> source name
    rmap = {v: k for k, v in cmap.items()}
    members = dfs(S_pre, S_pre['wbs'][src_w]['roots'])
    selected = dfs(S_pre, selected_roots)
    # source unchanged (relations among its members, fields, roots, attrs)
    for m in members:
        a, b = T0[m], T1[m]
        for k in ('parent', 'children', 'wbs', 'fields', 'id', 'preds', 'succs'):
            if a[k] != b[k]:
                return ('source-changed', f'{m}.{k}: {a[k]} -> {b[k]}')
    if S_pre['wbs'][src_w] != S_post['wbs'][src_w]:
        return ('source-changed', f'{src_w} root list or attributes changed')
    # shape
    copy_members = dfs(S_post, S_post['wbs'][new_w]['roots'])
    if [cmap.get(c) for c in S_post['wbs'][new_w]['roots']] != list(selected_roots):
        return ('copy-shape', f'roots of {new_w} map to {[cmap.get(c) for c in S_post["wbs"][new_w]["roots"]]}, selected {selected_roots}')
    if [cmap.get(c) for c in copy_members] != selected:
        return ('copy-shape', f'{new_w} tasks map to {[cmap.get(c) for c in copy_members]}, expected copies of {selected}')
    for c in copy_members:
        s = cmap[c]
        if c in T0:
            return ('copy-not-new', f'{c} is not a new object')
        if world.tasks[c] is world.tasks[s]:
            return ('copy-not-new', f'copy of {s} is the same object')
        cd, sd = T1[c], T0[s]
        if cd['id'] != sd['id'] or cd['fields'] != sd['fields']:
            return ('copy-fields', f'copy of {s}: id/fields {cd["id"]},{cd["fields"]} vs {sd["id"]},{sd["fields"]}')
        if cd['wbs'] != new_w:
            return ('copy-owner', f'copy of {s} reports owner {cd["wbs"]}')
        if [cmap.get(x) for x in cd['children']] != sd['children']:
            return ('copy-shape', f'children of copy of {s}: {cd["children"]} vs {sd["children"]}')
        exp_parent = rmap.get(sd['parent']) if sd['parent'] in selected and s not in selected_roots else None
        if cd['parent'] != exp_parent:
            return ('copy-shape', f'parent of copy of {s} is {cd["parent"]}, expected {exp_parent}')
        for k in ('preds', 'succs'):
            exp = set()
            for x in sd[k]:
                if x in selected:
                    exp.add(rmap[x])
                elif x in members:
                    continue       # link to a non-selected member of the source: left out
                else:
                    exp.add(x)     # outside task: same object
            if set(cd[k]) != exp:
                return ('copy-links', f'{k} of copy of {s}: {sorted(cd[k])}, expected {sorted(exp)} (source {sd[k]})')
    # WBS attributes carried over
    if S_post['wbs'][new_w]['attrs'] != S_pre['wbs'][src_w]['attrs']:
        return ('copy-attrs', f'{new_w} attrs {S_post["wbs"][new_w]["attrs"]} vs {S_pre["wbs"][src_w]["attrs"]}')
    return None


def sides(world, S):
    """for every clone pair still meaningful: (src members+wbs name, copy members+wbs name)"""
    out = []
    for p in world.pairs:
        if p['src'] not in S['wbs'] or p['copy'] not in S['wbs']:
            continue
        # sides are the CURRENT members of the two WBSs (tasks may have migrated since the copy)
        out.append((p, set(dfs(S, S['wbs'][p['src']]['roots'])) | {p['src']},
                    set(dfs(S, S['wbs'][p['copy']]['roots'])) | {p['copy']}))
    return out
