"""CSV machine (C13): write_csv / read_csv over a simulated file system.

The real csv_io code, CPython's TextIOWrapper / Buffered* / csv run on top of a simulated raw
device (SimRawIO) that transfers a seeded number of bytes per call (short reads / short writes,
splitting multi-byte characters, CRLF and quoted fields) and, in the fault configuration,
raises EIO / ENOSPC at a seeded byte offset."""
import copy as _copy
import csv as _csv
import datetime as _dt
import errno
import io as _io

from . import core

PROPS = ('C13',)
DT = core._REAL_DATETIME
DEFAULT_HEADER = ['id', 'name', 'resource', 'start', 'end', 'estimate', 'spent', 'milestone', 'parent_id', 'predecessor_ids']

ALPHABET = [';', '"', "'", ',', '\r', '\n', '\r\n', '\ufeff', ' ', '  ', 'é', '日本', '\t', '\\', 'a', 'B', '0', '-', ';;', '""',
            'x;y', 'line1\nline2', ' lead', 'trail ', '=1+1', 'None', 'True', 'ß']


# --------------------------------------------------------------------------- simulated FS

class SimFS:
    def __init__(self):
        self.files = {}
        self.opened = 0
        self.closed = 0
        self.stats = {'short_read': 0, 'short_write': 0, 'split_multibyte': 0, 'split_crlf': 0, 'eio': 0, 'enospc': 0,
                      'raw_reads': 0, 'raw_writes': 0}
        self.plan = [8192]
        self.plan_i = 0
        self.buffer_size = 8192
        self.read_fault_at = None
        self.write_fault_at = None

    def next_chunk(self):
        v = self.plan[self.plan_i % len(self.plan)]
        self.plan_i += 1
        return v

    def open(self, path, mode='r', encoding=None, newline=None, **kw):
        """text-mode open with the semantics of a real file system for every mode pjplan could plausibly use
        (r, w, a, x, r+, w+): a changed mode must show up as wrong file content, not as a harness error"""
        m = mode.replace('t', '')
        if 'b' in m or m not in ('r', 'w', 'a', 'x', 'r+', 'w+', 'a+'):
            raise core.HarnessError(f'unexpected open mode {mode}')
        if m in ('r', 'r+') and path not in self.files:
            raise FileNotFoundError(errno.ENOENT, 'No such file', path)
        if m == 'x' and path in self.files:
            raise FileExistsError(errno.EEXIST, 'File exists', path)
        self.opened += 1
        raw = SimRawIO(self, path, m)
        if m == 'r':
            buf = _io.BufferedReader(raw, buffer_size=self.buffer_size)
        elif m in ('w', 'a', 'x'):
            buf = _io.BufferedWriter(raw, buffer_size=self.buffer_size)
        else:
            buf = _io.BufferedRandom(raw, buffer_size=self.buffer_size)
        return _io.TextIOWrapper(buf, encoding=encoding, newline=newline)


class SimRawIO(_io.RawIOBase):
    def __init__(self, fs, path, mode):
        super().__init__()
        self.fs, self.path, self.mode = fs, path, mode
        self.pos = 0
        if mode in ('w', 'w+', 'x') or path not in fs.files:
            fs.files[path] = bytearray()
        if mode in ('a', 'a+'):
            self.pos = len(fs.files[path])

    def readable(self):
        return self.mode in ('r', 'r+', 'w+', 'a+')

    def writable(self):
        return self.mode != 'r'

    def seekable(self):
        return True

    def seek(self, off, whence=0):
        n = len(self.fs.files[self.path])
        self.pos = max(0, off if whence == 0 else (self.pos + off if whence == 1 else n + off))
        return self.pos

    def tell(self):
        return self.pos

    def truncate(self, size=None):
        size = self.pos if size is None else size
        del self.fs.files[self.path][size:]
        return size

    def readinto(self, b):
        fs = self.fs
        data = fs.files[self.path]
        fs.stats['raw_reads'] += 1
        if fs.read_fault_at is not None and self.pos >= fs.read_fault_at:
            fs.stats['eio'] += 1
            raise OSError(errno.EIO, 'simulated I/O error')
        n = min(len(b), fs.next_chunk(), len(data) - self.pos)
        if fs.read_fault_at is not None:
            n = min(n, max(fs.read_fault_at - self.pos, 0)) or n
        if n < min(len(b), len(data) - self.pos):
            fs.stats['short_read'] += 1
        chunk = bytes(data[self.pos:self.pos + n])
        if n and self.pos + n < len(data):
            nxt = data[self.pos + n]
            if 0x80 <= nxt <= 0xBF:
                fs.stats['split_multibyte'] += 1
            if chunk.endswith(b'\r') and nxt == 0x0A:
                fs.stats['split_crlf'] += 1
        b[:n] = chunk
        self.pos += n
        return n

    def write(self, b):
        fs = self.fs
        fs.stats['raw_writes'] += 1
        data = fs.files[self.path]
        if fs.write_fault_at is not None and len(data) >= fs.write_fault_at:
            fs.stats['enospc'] += 1
            raise OSError(errno.ENOSPC, 'simulated: no space left on device')
        n = min(len(b), fs.next_chunk())
        if fs.write_fault_at is not None:
            n = min(n, fs.write_fault_at - len(data))
        if n < len(b):
            fs.stats['short_write'] += 1
        if self.mode in ('a', 'a+'):
            self.pos = len(data)
        data[self.pos:self.pos + n] = bytes(b[:n])
        self.pos += n
        return n

    def close(self):
        if not self.closed:
            self.fs.closed += 1
        super().close()


# --------------------------------------------------------------------------- scenario generation

def rand_text(r):
    k = r.random()
    if k < 0.12:
        return None
    if k < 0.2:
        return ''
    n = r.randint(1, 4)
    return ''.join(r.choice(ALPHABET) for _ in range(n))


def rand_date(r):
    d = DT(1969, 1, 1) + _dt.timedelta(days=r.randint(0, 36500 - 366))
    return d.isoformat()


def make_scenario(streams):
    r = streams('shape')
    n = r.choice([1, 2, 3, 4, 5, 6, 8, 10])
    ids = r.sample([0, 0, -1, -7] + list(range(1, 30)), n + 3)
    ids = list(dict.fromkeys(ids))[:n]
    while len(ids) < n:
        ids.append(100 + len(ids))
    tasks = []
    customs = r.sample(['tag', 'prio', 'note', 'метка', 'gantt_section', 'x_y'], r.randint(0, 3))
    for i in range(n):
        parent = None
        if i > 0 and r.random() < 0.55:
            parent = r.choice(tasks)['name']
        kw = {}
        nm = rand_text(r)
        kw['name'] = nm
        res = rand_text(r) if r.random() < 0.5 else r.choice([None, 'r1'])
        if res is not None:
            kw['resource'] = res
        if r.random() < 0.5:
            kw['start'] = rand_date(r)
        if r.random() < 0.5:
            kw['end'] = rand_date(r)
        if r.random() < 0.7:
            kw['estimate'] = r.choice([0, 1, 3, 8, 0.5, 2.25, 1 / 3, 0.1, 1e-7, 123456.789, 40])
        if r.random() < 0.5:
            kw['spent'] = r.choice([0, 1, 0.5, 2.75, 1 / 7])
        if r.random() < 0.3:
            kw['milestone'] = True
        if r.random() < 0.35:
            kw['min_start'] = rand_date(r)
        for c in customs:
            if r.random() < 0.55:
                kw[c] = r.choice([rand_text(r), rand_text(r), r.randint(-5, 50), 1.5, None])
        tasks.append({'name': f't{i}', 'id': ids[i], 'parent': parent, 'kw': kw})
    links = []
    names = [t['name'] for t in tasks]
    par = {t['name']: t['parent'] for t in tasks}

    def anc(x):
        out = []
        while par.get(x):
            x = par[x]
            out.append(x)
        return out
    for _ in range(r.choice([0, 0, 1, 2, n])):
        if n < 2:
            break
        a, b = r.sample(names, 2)
        ia, ib = names.index(a), names.index(b)
        if ia < ib:
            a, b = b, a  # later task waits for an earlier one: acyclic by construction
        if b in anc(a) or a in anc(b) or [a, b] in links:
            continue
        links.append([a, b])
    fs = streams('fs')
    sc = {'machine': 'csv', 'tasks': tasks, 'links': links,
          'plan': [fs.choice([1, 1, 2, 3, 5, 7, 16, 64, 8192]) for _ in range(fs.randint(1, 6))],
          'buffer_size': fs.choice([1, 2, 7, 16, 64, 8192]),
          'mode': r.choice(['roundtrip', 'roundtrip', 'roundtrip', 'hand', 'fault'])}
    if sc['mode'] == 'hand':
        sc['hand'] = {'bom': r.random() < 0.5, 'eol': r.choice(['\r\n', '\n']), 'quote_all': r.random() < 0.3,
                      'old_version': r.random() < 0.3}
    if sc['mode'] == 'roundtrip' and r.random() < 0.3:
        sc['stale_file'] = r.randint(1, 60)
    if sc['mode'] == 'fault':
        f = streams('faults')
        sc['fault'] = {'on': f.choice(['write', 'read']), 'at': f.randint(0, 400)}
    return sc


# --------------------------------------------------------------------------- world

def build_wbs(pj, sc):
    tasks = {}
    w = pj.WBS()
    for t in sc['tasks']:
        kw = dict(t['kw'])
        for k in ('start', 'end', 'min_start'):
            if kw.get(k):
                kw[k] = DT.fromisoformat(kw[k])
        tasks[t['name']] = pj.Task(t['id'], **kw)
    for t in sc['tasks']:
        if t.get('parent') and t['parent'] in tasks:
            tasks[t['parent']].children.append(tasks[t['name']])
        else:
            w.roots.append(tasks[t['name']])
    for a, b in sc['links']:
        if a in tasks and b in tasks:
            try:
                tasks[a].predecessors.append(tasks[b])
            except RuntimeError:
                pass
    return w


IGNORED_ATTRS = ('parent_id', 'predecessor_ids')
STD = ('name', 'resource', 'start', 'end', 'milestone', 'min_start')


def norm_text(v):
    return '' if v is None else v


def view(w):
    """what C13 compares: order, hierarchy, predecessor lists, fields, custom attributes as strings"""
    out = []
    for t in w.tasks:
        d = t.to_dict()
        custom = {}
        for k, v in d.items():
            if k in STD or k == 'id' or k in IGNORED_ATTRS:
                continue
            s = '' if v is None else str(v)
            if s != '':
                custom[k] = s
        out.append({
            'id': t.id,
            'parent': t.parent.id if t.parent is not None else None,
            'children': [c.id for c in t.children],
            'preds': [p.id for p in t.predecessors],
            'name': norm_text(t.name), 'resource': norm_text(t.resource),
            'start': core.iso(t.start), 'end': core.iso(t.end),
            'estimate': t.estimate, 'spent': t.spent, 'milestone': bool(t.milestone),
            'min_start': core.iso(t.min_start) if isinstance(t.min_start, DT) else t.min_start,
            'custom': custom,
        })
    return {'roots': [t.id for t in w.roots], 'tasks': out}


def diff_views(a, b):
    if a['roots'] != b['roots']:
        return f'root order {a["roots"]} -> {b["roots"]}'
    if [t['id'] for t in a['tasks']] != [t['id'] for t in b['tasks']]:
        return f'task ids/order {[t["id"] for t in a["tasks"]]} -> {[t["id"] for t in b["tasks"]]}'
    for x, y in zip(a['tasks'], b['tasks']):
        for k in x:
            if x[k] != y[k]:
                if k in ('estimate', 'spent') and x[k] is not None and y[k] is not None and float(x[k]) == float(y[k]):
                    continue
                return f'task id {x["id"]}: {k} {x[k]!r} -> {y[k]!r}'
    return None


def hand_written(sc, intended):
    """a file in the documented layout produced by the simulator itself (not by write_csv)"""
    h = sc['hand']
    customs = []
    for t in intended['tasks']:
        for k in t['custom']:
            if k not in customs:
                customs.append(k)
    if h['old_version']:
        customs = [c for c in customs if c == 'min_start']
    buf = _io.StringIO()
    # csv.writer with an LF terminator leaves a bare CR unquoted, which is not a well-formed file:
    # a hand-written file that contains CR inside a field quotes its fields
    has_cr = any('\r' in str(v) for t in intended['tasks'] for v in [t['name'], t['resource']] + list(t['custom'].values()))
    quote_all = h['quote_all'] or (has_cr and h['eol'] == '\n')
    wr = _csv.writer(buf, delimiter=';', lineterminator=h['eol'],
                     quoting=_csv.QUOTE_ALL if quote_all else _csv.QUOTE_MINIMAL)
    has_ms = any(t['min_start'] for t in intended['tasks'])
    header = DEFAULT_HEADER + (['min_start'] if has_ms else []) + [c for c in customs if c != 'min_start']
    wr.writerow(header)
    for t in intended['tasks']:
        def d(x):
            return DT.fromisoformat(x).strftime('%d.%m.%y') if x else ''
        row = [t['id'], t['name'], t['resource'], d(t['start']), d(t['end']),
               '' if t['estimate'] is None else repr(float(t['estimate'])) if isinstance(t['estimate'], float) else t['estimate'],
               '' if t['spent'] is None else t['spent'], 'True' if t['milestone'] else 'False',
               '' if t['parent'] is None else t['parent'], ';'.join(str(p) for p in t['preds'])]
        if has_ms:
            row.append(str(DT.fromisoformat(t['min_start'])) if t['min_start'] else '')
        row += [t['custom'].get(c, '') for c in customs if c != 'min_start']
        wr.writerow(row)
    text = buf.getvalue()
    if h['bom']:
        text = '\ufeff' + text
    return text.encode('utf-8'), header


def check_layout(data, v):
    """header and row layout of a file written by write_csv"""
    text = data.decode('utf-8')
    rows = list(_csv.reader(_io.StringIO(text, newline=''), delimiter=';'))
    if not rows:
        return 'empty file'
    if rows[0][:len(DEFAULT_HEADER)] != DEFAULT_HEADER:
        return f'header {rows[0]}'
    if len(rows) - 1 != len(v['tasks']):
        return f'{len(rows) - 1} rows for {len(v["tasks"])} tasks'
    for row, t in zip(rows[1:], v['tasks']):
        if len(row) != len(rows[0]):
            return f'row of task {t["id"]} has {len(row)} fields, header {len(rows[0])}'
        if row[0] != str(t['id']):
            return f'row order: id column {row[0]!r}, task {t["id"]}'
        for col, key in ((3, 'start'), (4, 'end')):
            exp = DT.fromisoformat(t[key]).strftime('%d.%m.%y') if t[key] else ''
            if row[col] != exp:
                return f'task {t["id"]}: {key} column {row[col]!r}, expected {exp!r}'
        if row[9] != ';'.join(str(p) for p in t['preds']):
            return f'task {t["id"]}: predecessor_ids column {row[9]!r}'
        exp_parent = '' if t['parent'] is None else str(t['parent'])
        if row[8] != exp_parent:
            return f'task {t["id"]}: parent_id column {row[8]!r}, expected {exp_parent!r}'
    return None


class Run:
    def __init__(self, sc, prop, keep_log=True):
        self.sc, self.prop = sc, prop
        self.log = core.EventLog(keep=keep_log)
        self.violation = None
        self.counters = {}
        self.steps = 0
        self.nontrivial = False
        self.end_state = 0

    def count(self, k, n=1):
        self.counters[k] = self.counters.get(k, 0) + n

    def V(self, clause, detail):
        self.violation = core.Violation('C13', clause, f'C13/{clause}/{self.sc["mode"]}', detail, self.steps)
        return self

    def run(self):
        pj = core.load_pjplan()
        import pjplan.io.csv_io as cio
        sc = self.sc
        fs = SimFS()
        fs.plan = list(sc['plan'])
        fs.buffer_size = sc['buffer_size']
        cio.open = fs.open
        try:
            return self._run(pj, cio, fs)
        finally:
            del cio.open
            for k, v in fs.stats.items():
                if v:
                    self.count('io.' + k, v)
            if fs.opened != fs.closed:
                self.count('probe.handle_not_closed', fs.opened - fs.closed)

    def _run(self, pj, cio, fs):
        sc = self.sc
        w0 = build_wbs(pj, sc)
        v0 = view(w0)
        self.log.add('wbs', core.hash64(v0))
        mode = sc['mode']
        self.count('mode.' + mode)
        if mode == 'hand':
            data, header = hand_written(sc, v0)
            fs.files['/simfs-no-such-dir/hand.csv'] = bytearray(data)
            self.steps += 1
            try:
                w1 = cio.read_csv('/simfs-no-such-dir/hand.csv')
            except Exception as e:  # noqa
                return self.V('hand-file-rejected', f'{type(e).__name__}: {e} (bom={sc["hand"]["bom"]}, eol={sc["hand"]["eol"]!r})')
            v1 = view(w1)
            exp = _copy.deepcopy(v0)
            if sc['hand']['old_version']:
                for t in exp['tasks']:
                    t['custom'] = {}
            self.log.add('read', core.hash64(v1), len(data))
            d = diff_views(exp, v1)
            if d:
                return self.V('hand-file-meaning', d)
            self.nontrivial = len(v0['tasks']) > 1
            self.end_state = core.hash64(v1)
            if sc['hand']['bom']:
                self.count('probe.bom_file_loaded')
            return self
        if mode == 'fault':
            f = sc['fault']
            try:
                if f['on'] == 'write':
                    fs.write_fault_at = f['at']
                self.steps += 1
                cio.write_csv(w0, '/simfs-no-such-dir/a.csv')
                fs.write_fault_at = None
                if f['on'] == 'read':
                    fs.read_fault_at = f['at']
                self.steps += 1
                w1 = cio.read_csv('/simfs-no-such-dir/a.csv')
            except OSError as e:
                self.count('fault.' + ('enospc_surfaced' if e.errno == errno.ENOSPC else 'eio_surfaced'))
                self.log.add('fault', e.errno)
                self.end_state = core.hash64(['fault', e.errno])
                # the fault is over: a retry on the same path (which now holds a torn file) must work
                fs.write_fault_at = fs.read_fault_at = None
                try:
                    self.steps += 2
                    cio.write_csv(w0, '/simfs-no-such-dir/a.csv')
                    wr = cio.read_csv('/simfs-no-such-dir/a.csv')
                except Exception as e2:  # noqa
                    return self.V('retry-after-fault-raised', f'{type(e2).__name__}: {e2}')
                d = diff_views(v0, view(wr))
                if d:
                    return self.V('retry-after-fault', d)
                self.count('probe.retry_after_fault_ok')
                return self
            except Exception as e:  # noqa
                return self.V('wrong-error-under-fault', f'{type(e).__name__}: {e}')
            finally:
                fs.write_fault_at = fs.read_fault_at = None
            # both calls returned normally: wrong data may not be returned
            self.count('fault.not_reached')
            d = diff_views(v0, view(w1))
            if d:
                return self.V('roundtrip-under-fault', d)
            self.end_state = core.hash64(view(w1))
            return self
        # fault-free round trip, three generations
        if sc.get('stale_file'):
            # the path already holds a longer, unrelated file: write_csv must replace it completely
            fs.files['/simfs-no-such-dir/a.csv'] = bytearray(('id;name\r\n' + '9;old;;;;;;;;\r\n' * sc['stale_file']).encode())
            self.count('probe.file_existed_with_longer_content')
        try:
            self.steps += 1
            cio.write_csv(w0, '/simfs-no-such-dir/a.csv')
            a = bytes(fs.files['/simfs-no-such-dir/a.csv'])
            self.log.add('write', len(a), core.hash64(a.hex()))
            lay = check_layout(a, v0)
            if lay:
                return self.V('layout', lay)
            self.steps += 1
            w1 = cio.read_csv('/simfs-no-such-dir/a.csv')
        except Exception as e:  # noqa
            return self.V('roundtrip-raised', f'{type(e).__name__}: {e}')
        v1 = view(w1)
        d = diff_views(v0, v1)
        if d:
            return self.V('roundtrip', d)
        try:
            self.steps += 2
            cio.write_csv(w1, '/simfs-no-such-dir/b.csv')
            w2 = cio.read_csv('/simfs-no-such-dir/b.csv')
            cio.write_csv(w2, '/simfs-no-such-dir/c.csv')
        except Exception as e:  # noqa
            return self.V('roundtrip-raised', f'second generation: {type(e).__name__}: {e}')
        b, c = bytes(fs.files['/simfs-no-such-dir/b.csv']), bytes(fs.files['/simfs-no-such-dir/c.csv'])
        if b != c:
            i = next((i for i in range(min(len(b), len(c))) if b[i] != c[i]), min(len(b), len(c)))
            return self.V('fixpoint', f'2nd and 3rd generation files differ at byte {i}: {b[max(0, i - 20):i + 20]!r} vs {c[max(0, i - 20):i + 20]!r}')
        d = diff_views(v0, view(w2))
        if d:
            return self.V('roundtrip', 'second generation: ' + d)
        # BOM variant loads with the same meaning
        fs.files['/simfs-no-such-dir/bom.csv'] = bytearray(b'\xef\xbb\xbf' + a)
        try:
            wb = cio.read_csv('/simfs-no-such-dir/bom.csv')
        except Exception as e:  # noqa
            return self.V('hand-file-rejected', f'BOM variant: {type(e).__name__}: {e}')
        d = diff_views(v1, view(wb))
        if d:
            return self.V('hand-file-meaning', 'BOM variant: ' + d)
        self.count('probe.bom_file_loaded')
        self.nontrivial = len(v0['tasks']) > 1
        self.end_state = core.hash64(a.hex())
        if fs.opened != fs.closed:
            self.count('probe.handle_leak_runs')
        return self


# --------------------------------------------------------------------------- entry points

def run_seed(seed, prop, quarantine=(), keep_log=False):
    sc = make_scenario(core.Streams(seed))
    sc['seed'] = seed
    return Run(sc, prop, keep_log).run()


def regenerate(seed, prop, quarantine=()):
    sc = make_scenario(core.Streams(seed))
    sc['seed'] = seed
    return sc


def replay(trace, prop, keep_log=False):
    return Run(_copy.deepcopy(trace), prop, keep_log).run()


def shrink(trace, prop, clause):
    cur = _copy.deepcopy(trace)

    def fails(sc):
        try:
            r = replay(sc, prop)
        except Exception:  # noqa
            return False
        return r.violation is not None and r.violation.clause == clause
    if not fails(cur):
        return cur
    changed = True
    budget = 400
    while changed and budget > 0:
        changed = False
        for t in list(cur['tasks']):
            if len(cur['tasks']) <= 1:
                break
            sc = _copy.deepcopy(cur)
            sc['tasks'] = [x for x in sc['tasks'] if x['name'] != t['name']]
            for x in sc['tasks']:
                if x.get('parent') == t['name']:
                    x['parent'] = None
            sc['links'] = [l for l in sc['links'] if t['name'] not in l]
            budget -= 1
            if fails(sc):
                cur, changed = sc, True
        for l in list(cur['links']):
            sc = _copy.deepcopy(cur)
            sc['links'].remove(l)
            budget -= 1
            if fails(sc):
                cur, changed = sc, True
        for ti, t in enumerate(cur['tasks']):
            for k in list(t['kw']):
                sc = _copy.deepcopy(cur)
                sc['tasks'][ti]['kw'].pop(k)
                budget -= 1
                if fails(sc):
                    cur, changed = sc, True
            for k, v in list(cur['tasks'][ti]['kw'].items()):
                if isinstance(v, str) and len(v) > 1 and k not in ('start', 'end', 'min_start'):
                    for cut in (v[:len(v) // 2], v[len(v) // 2:], v[:-1], v[1:]):
                        sc = _copy.deepcopy(cur)
                        sc['tasks'][ti]['kw'][k] = cut
                        budget -= 1
                        if fails(sc):
                            cur, changed = sc, True
                            break
            if t.get('parent'):
                sc = _copy.deepcopy(cur)
                sc['tasks'][ti]['parent'] = None
                budget -= 1
                if fails(sc):
                    cur, changed = sc, True
        if cur['plan'] != [8192] or cur['buffer_size'] != 8192:
            sc = _copy.deepcopy(cur)
            sc['plan'], sc['buffer_size'] = [8192], 8192
            budget -= 1
            if fails(sc):
                cur, changed = sc, True
    return cur


def chunk(payload):
    core.TIER = payload.get('tier', 'quick')
    prop, seeds = payload['prop'], payload['seeds']
    agg = core.Agg()
    for seed in seeds:
        r = run_seed(seed, prop)
        agg.runs += 1
        agg.ops += r.steps
        for k, v in r.counters.items():
            agg.counters[k] += v
        agg.states.add(r.end_state)
        agg.transitions.add((r.sc['mode'], r.violation.clause if r.violation else 'ok'))
        if r.nontrivial:
            agg.end_states.add(r.end_state)
        if r.violation is not None:
            agg.violations.append((seed, r.violation.as_dict()))
        if len(agg.samples) < 2:
            agg.samples.append({'seed': seed, 'mode': r.sc['mode'], 'plan': r.sc['plan'], 'buffer_size': r.sc['buffer_size'],
                                'tasks': [[t['id'], t.get('parent'), t['kw']] for t in r.sc['tasks']][:4], 'links': r.sc['links'][:4]})
    return agg


TIER_RUNS = {'quick': {'default': 40000}, 'thorough': {'default': 2000000}}
QUARANTINE_OF = {}
ASSUMPTIONS = {'default': [
    'sampling by seed; <= 10 tasks, <= 3 custom columns; text fields are drawn from an adversarial alphabet (delimiter, quotes, CR, LF, CRLF, BOM character, non-ASCII, leading/trailing blanks)',
    'the simulated raw device sits under the real TextIOWrapper/BufferedReader/BufferedWriter/csv stack of CPython, which is trusted',
    "re-read tasks carry the CSV bookkeeping columns parent_id / predecessor_ids as attributes; they are not custom attributes of the source and are ignored",
    'under an injected I/O error the faulted call may raise OSError; if both write_csv and read_csv return, the data must be right; torn files after a failed write are not judged (no durability claim exists)',
]}
RULE = ('one run = seeded WBS in the stated CSV domain + seeded raw-device chunk plan and buffer size; mode roundtrip (three '
        'generations, layout of the captured bytes, byte-exact fixpoint, BOM variant), hand (file produced by the simulator in the '
        'documented layout: BOM / no BOM, LF / CRLF, quoted / bare, earlier-version column set) or fault (EIO on read / ENOSPC on '
        'write at a seeded offset, relaxed oracle). distinct_nontrivial = distinct first-generation file contents (or loaded '
        'views) among runs with more than one task.')


def coverage(prop, agg, tier, wall, workers):
    c = agg.counters
    return {
        'evaluations': agg.runs,
        'distinct_nontrivial': len(agg.end_states),
        'rule': RULE,
        'samples': agg.samples[:3],
        'csv_calls': agg.ops,
        'states': len(agg.states),
        'transitions': len(agg.transitions),
        'faults_fired': {k: v for k, v in sorted(c.items()) if k.startswith(('fault.', 'io.'))},
        'modes': {k[len('mode.'):]: v for k, v in sorted(c.items()) if k.startswith('mode.')},
        'probes': {k[len('probe.'):]: v for k, v in sorted(c.items()) if k.startswith('probe.')},
        'runs_per_hour': int(agg.runs / wall * 3600) if wall > 0 else 0,
        'seeds_per_hour': int(agg.runs / wall * 3600) if wall > 0 else 0,
        'simulated_time_covered_s': 0,
        'simulated_time_note': 'no clock in this machine; the simulated dimension is the byte stream',
        'workers': workers,
    }
