"""Schedule machine, part 4: one simulated run = scenario (WBS + resources/peers + calc history
under clock policies and peer faults) executed against the real schedulers, all oracles
evaluated after every calc."""
import copy as _copy
import datetime as _dt

from . import core
from . import sgen
from . import soracle as so
from .sworld import SWorld, D, DT, day, input_snapshot, result_view, comparable

PROPS = ('C02', 'C03', 'C04', 'C06', 'C07', 'C08', 'C09', 'C14')


def effective(sc, w):
    if not w.rejected_links:
        return sc
    sc2 = dict(sc)
    sc2['links'] = [l for l in sc['links'] if l not in w.rejected_links]
    return sc2


class Run:
    def __init__(self, sc, prop, quarantine=(), keep_log=True):
        self.sc = sc
        self.prop = prop
        self.quarantine = set(quarantine)
        self.log = core.EventLog(keep=keep_log)
        self.violation = None
        self.counters = {}
        self.steps = 0
        self.sim_seconds = 0.0
        self.nontrivial = False
        self.end_state = 0
        self.states = set()
        self.transitions = set()
        self.ci_pool = []
        self.ci_shapes = {}
        self.unschedulable = None
        self.results = {}
        self.fed_back = set()

    def count(self, k, n=1):
        self.counters[k] = self.counters.get(k, 0) + n

    def run(self):
        sc = self.sc
        w = self.w = SWorld(sc)
        self.sc_cur = _copy.deepcopy({k: sc[k] for k in ('tasks', 'links', 'external', 'resources') if k in sc})
        self.edited = False
        self.st = st = so.Struct(effective(sc, w))
        if w.rejected_links:
            self.count('links_rejected_by_api', len(w.rejected_links))
        self.sched_proj = {}
        self.views = {}
        self.log.add('scenario', core.hash64({k: sc.get(k) for k in ('tasks', 'links', 'external', 'resources', 'schedulers', 'wbs_kw')}))
        for i, op in enumerate(sc['ops']):
            vs = self.step(i, op)
            self.steps += 1
            if vs:
                mine = [v for v in vs if v.prop == self.prop]
                if mine:
                    self.violation = mine[0]
                    self.violation.step = i
                else:
                    self.count('poisoned_by.' + vs[0].prop)
                break
        self.end_state = core.hash64([self.views.get(i) for i in sorted(self.views)])
        return self

    def project_date(self, op, out, params):
        key = op['sched']
        if out['created'] or key not in self.sched_proj:
            explicit = params.get('start') if params['dir'] == 'fwd' else params.get('end')
            if explicit:
                self.sched_proj[key] = D(explicit)
            else:
                self.sched_proj[key] = out['ctor_reads'][0] if out['ctor_reads'] else None
        return self.sched_proj[key]

    def step_mutate(self, i, op):
        """a WBS edit between two calcs: the following calcs are judged against the edited scenario"""
        w = self.w
        m = op['m']
        if m['kind'] == 'cal_set_units' and m.get('from_rows') is not None:
            # aim the edit at a day the previous schedule really used (k-th distinct work day of that resource)
            last = max([j for j in self.views if self.views[j] is not None], default=None)
            days = sorted({r[1] for r in self.views[last]['rows'] if r[0] == m['res']}) if last is not None else []
            if days:
                m = dict(m, date=days[m['from_rows'] % len(days)])
                op = dict(op, m=m)
        ok = w.mutate(op['m'])
        self.log.add('mutate', i, op['m'], ok)
        if not ok:
            self.count('mutation_rejected_by_api')
            return []
        self.count('probe.wbs_edited_between_calcs')
        m = op['m']
        cur = self.sc_cur
        if m['kind'] == 'cal_set_units':
            self.count('probe.calendar_edited_between_calcs')
        elif m['kind'] == 'add_link':
            cur['links'].append(list(m['link']))
        elif m['kind'] == 'remove_link':
            cur['links'] = [l for l in cur['links'] if l != list(m['link'])]
        elif m['kind'] == 'reparent':
            # Task.parent = p appends the task at the end of p's children (or of the WBS roots)
            ent = [t for t in cur['tasks'] if t['name'] == m['task']][0]
            cur['tasks'].remove(ent)
            ent['parent'] = m.get('parent')
            cur['tasks'].append(ent)
        elif m['kind'] == 'set_kw':
            for t in cur['tasks']:
                if t['name'] == m['task']:
                    if m['value'] is None:
                        t['kw'].pop(m['key'], None)
                    else:
                        t['kw'][m['key']] = m['value']
        self.st = so.Struct(effective(cur, w))
        self.ci_pool = []
        self.edited = True
        return []

    def step_other_wbs(self, i, op):
        """the same scheduler object is used for a DIFFERENT WBS in between (a clone with one task removed);
        only the outcome type is judged here, the point is the repeat on the original WBS that follows"""
        w = self.w
        name = op.get('remove')
        if name not in w.tasks or op['sched'] not in w.schedulers:
            return []
        clone = w.wbs.clone()
        try:
            clone.remove(clone[w.id_of[name]])
        except RuntimeError:
            return []
        out = w.calc(dict(op, op='calc', fresh=False), wbs=clone)
        self.log.add('calc_other_wbs', i, name, out['outcome'], out.get('exc'))
        self.count('probe.scheduler_reused_for_other_wbs')
        params = self.sc['schedulers'][op['sched']]
        c = so.Ctx(w, self.st, op, out, None, params, self.sched_proj.get(op['sched']))
        if out['outcome'] == 'budget':
            return [so.V('C14', 'no-termination', 'calc on the reduced WBS exceeded the step budget', c)]
        if out['outcome'] == 'exc' and out['exc'][0] != 'RuntimeError':
            return [so.V('C14', 'crash', f'calc on the reduced WBS raised {out["exc"][0]}: {out["exc"][1]}', c)]
        return []

    def step(self, i, op):
        if op['op'] == 'mutate':
            return self.step_mutate(i, op)
        if op['op'] == 'calc_other_wbs':
            return self.step_other_wbs(i, op)
        if op.get('on_result') is not None:
            return self.step_on_result(i, op)
        return self.step_calc(i, op, None)

    def step_on_result(self, i, op):
        """feed the schedule produced by an earlier calc back into a scheduler, with its dates cleared"""
        prev = self.results.get(op['on_result'])
        if prev is None:
            return []
        wbs2 = prev.schedule
        self.fed_back.add(op['on_result'])   # this result object is edited by the simulator itself from here on
        sc2 = _copy.deepcopy(self.sc_cur)
        by_id = {t.id: t for t in wbs2.tasks}
        for t in sc2['tasks']:
            obj = by_id.get(t['id'])
            if obj is None:
                return []
            t['kw'].pop('start', None)
            t['kw'].pop('end', None)
            if not op.get('clear', True) and not obj.children and obj.start is not None and obj.end is not None:
                t['kw']['start'], t['kw']['end'] = core.iso(obj.start), core.iso(obj.end)
            for k in ('estimate', 'spent'):
                v = getattr(obj, k)
                if v is None:
                    t['kw'].pop(k, None)
                else:
                    t['kw'][k] = v
        if op.get('clear', True):
            for obj in by_id.values():
                obj.start = obj.end = None
        saved = self.st
        self.st = so.Struct(effective(sc2, self.w))
        self.count('probe.result_fed_back_into_scheduler')
        try:
            return self.step_calc(i, op, wbs2)
        finally:
            self.st = saved

    def step_calc(self, i, op, wbs):
        w, st, sc = self.w, self.st, self.sc
        params = sc['schedulers'][op['sched']]
        pre = input_snapshot(w)
        if op['op'] == 'calc_minus':
            return self.step_minus(i, op, params, pre)
        pre2 = wbs_snapshot(wbs) if wbs is not None else None
        out = w.calc(op, wbs=wbs)
        post = input_snapshot(w)
        if out['outcome'] == 'ok':
            self.results[i] = out['result']
        proj = self.project_date(op, out, params)
        reads = out['reads']
        if reads:
            self.sim_seconds += (max(reads) - min(reads)).total_seconds()
        view = result_view(w, out['result']) if out['outcome'] == 'ok' else None
        comp = comparable(view) if view else None
        self.views[i] = comp
        self.log.add('calc', i, op['sched'], out['outcome'], out.get('exc'), [core.iso(r) for r in reads],
                     out['peer_calls'], core.hash64(comp))
        self.states.add(core.hash64(comp))
        self.transitions.add((params['dir'], params.get('balance', True), out['outcome'], (out.get('exc') or ['-'])[0], op['clock']['kind'], bool(op.get('peer_fail'))))
        c = so.Ctx(w, st, op, out, view, params, proj)
        vs = []
        self.probes(c, op, out, view)
        # ---- C06 purity (also when the call raised)
        d = diff_input(pre, post, set(w.ext))
        if d is None and wbs is not None and wbs_snapshot(wbs) != pre2:
            d = 'the WBS passed to calc (an earlier result with cleared dates) changed'
        if d:
            vs.append(so.V('C06', 'input-modified', f'calc ({out["outcome"]}) changed the input: {d}', c))
        # ---- C14 outcome
        vs += self.judge_c14(c, op, out)
        if out['outcome'] != 'ok':
            if op.get('peer_fail'):
                self.count('fault.peer_down' if out.get('exc', ('',))[0] == 'PeerDown' else 'fault.peer_down_not_reached')
            return vs
        if op.get('peer_fail'):
            self.count('fault.peer_down_not_reached')
        self.count('calc_ok.' + params['dir'])
        if view['rows'] and reads:
            self.nontrivial = True
        elif view['rows'] and params['dir'] == 'bwd':
            self.nontrivial = True
        in_domain = self.in_domain(params) and (params['dir'] == 'fwd' or self.bwd_domain()) and not self.unschedulable
        # ---- structure of the result (C06)
        r = so.check_c06_result(c, pre) if wbs is None else None
        if wbs is not None:
            for n, d in view['tasks'].items():
                if d['start'] is None or d['end'] is None:
                    r = so.V('C06', 'missing-dates', f'{n}: start {d["start"]}, end {d["end"]} (re-scheduled result)', c)
                    break
        if r:
            vs.append(r)
            if r.clause != 'missing-dates':
                return vs
        # ---- results handed out earlier stay what they were (a Schedule is a value, not a view of the scheduler)
        for j, old in list(self.results.items()):
            if j == i or self.views.get(j) is None or j in self.fed_back:
                continue
            now_j = comparable(result_view(w, old))
            if now_j != self.views[j]:
                msg = f'the Schedule returned by calc #{j} changed after calc #{i}: {first_diff(self.views[j], now_j)}'
                vs.append(so.V('C06', 'earlier-result-changed', msg, c))
                vs.append(so.V('C04', 'earlier-result-changed', msg, c))
                vs.append(so.V('C03', 'earlier-result-changed', msg, c))
                break
        # ---- determinism / clock independence (C06)
        ref_i = op.get('equal_to')
        if ref_i is not None and self.views.get(ref_i) is not None and not self.edited and wbs is None:
            if comp != self.views[ref_i]:
                vs.append(so.V('C06', 'not-deterministic', f'calc #{i} differs from calc #{ref_i} with equal inputs and clock: {first_diff(self.views[ref_i], comp)}', c))
            else:
                self.count('probe.repeat_equal')
        if wbs is None and op.get('ci') and proj is not None and c.r_max is not None and c.r_max <= proj:
            for j, other in [(j, o) for (j, o) in self.ci_views() if self.sc['ops'][j]['sched'] == op['sched']]:
                if other != comp:
                    shape = so.f17_shape(c) or self.ci_shapes.get(j)
                    vs.append(so.V('C06', 'clock-dependent', f'clock {op["clock"]} vs calc #{j}: {first_diff(other, comp)}', c, shape))
                    break
            self.count('probe.clock_independence_compared')
        if wbs is None and params['dir'] == 'fwd' and proj is not None and c.r_max is not None and c.r_max <= proj and 'start' in params:
            f17 = 'F17' in self.quarantine and proj != day(proj) and c.r_max.date() == proj.date()
            if not f17:
                self.ci_pool.append((i, comp))
                self.ci_shapes[i] = so.f17_shape(c)
        # ---- the remaining oracles apply to scenarios inside the properties' domain
        if in_domain:
            for pid, fn in (('C03', so.check_c03), ('C07', so.check_c07), ('C04', so.check_c04)):
                r = self.safe(pid, fn, c)
                if r:
                    vs.append(r)
            r = self.safe('C02', so.check_c02, c)
            if r:
                vs.append(r)
            r = self.safe('C08', so.check_c08, c, self.quarantine)
            if r:
                vs.append(r)
            if params['dir'] == 'bwd' and self.bwd_domain() == 'strict':
                if reads:
                    vs.append(so.V('C09', 'clock-read', f'backward calc read the clock {len(reads)} times', c))
                r = self.safe('C09', so.check_c09, c)
                if r:
                    vs.append(r)
                self.count('probe.c09_judged')
        return vs

    def safe(self, pid, fn, *args):
        """an oracle that cannot cope with a (corrupt) result must not take the other properties down: for the
        selected property that is a harness error, for the others it is only counted"""
        try:
            return fn(*args)
        except core.HarnessError:
            raise
        except Exception as e:  # noqa
            if pid == self.prop:
                raise core.HarnessError(f'oracle of {pid} failed on seed {self.sc.get("seed")}: {type(e).__name__}: {e}')
            self.count('oracle_gave_up.' + pid)
            return None

    def ci_views(self):
        return list(self.ci_pool)

    def in_domain(self, params):
        """acyclic (expanded) WBS; C02/C08/C09 quantify over those"""
        return not self.st.expanded_cyclic()

    def bwd_domain(self):
        """'strict': no user-fixed dates on leaves and no external predecessors (the domain C09 is written for).
        'loose': user-fixed STARTS allowed (the backward scheduler only ever moves such a start earlier), which is
        enough for C03, C07 and the reservation clauses of C04.  None: a leaf has a user-fixed end or there is an
        external predecessor; the backward statements say nothing about those."""
        if self.st.ext:
            return None
        kind = 'strict'
        for n in self.st.order_listed:
            kw = self.st.spec[n].get('kw', {})
            if self.st.is_leaf(n):
                if kw.get('end'):
                    return None
                if kw.get('start'):
                    kind = 'loose'
        return kind

    # ---- C14
    def judge_c14(self, c, op, out):
        vs = []
        st, sc = self.st, self.sc
        params = c.p
        if out['outcome'] == 'budget':
            return [so.V('C14', 'no-termination', f'calc exceeded the step budget: {out["exc"][1]}', c)]
        exc = out.get('exc')
        if exc and exc[0] == 'PeerDown' and op.get('peer_fail'):
            return []
        if exc and exc[0] != 'RuntimeError':
            return [so.V('C14', 'crash', f'calc raised {exc[0]}: {exc[1]}', c)]
        must_raise = None
        may_raise = False
        # external predecessor without dates
        for e in st.ext.values():
            if not e.get('start') or not e.get('end'):
                if st.succs.get(e['name']):
                    must_raise = f'external predecessor {e["name"]} lacks a date'
        if st.expanded_cyclic():
            must_raise = must_raise or 'dependency cycle closing through the hierarchy'
        reads = out['reads']
        if params['dir'] == 'fwd':
            for n in st.order_listed:
                kw = st.spec[n].get('kw', {})
                if kw.get('end'):
                    e = D(kw['end'])
                    r_first = reads[0] if reads else None
                    if r_first is None:
                        may_raise = True
                    elif e > max(reads):
                        if st.is_leaf(n) and not kw.get('milestone'):
                            must_raise = must_raise or f'{n} has a fixed end {e} after the clock {max(reads)}'
                        may_raise = True
                    elif e > min(reads):
                        may_raise = True
        dead = self.dead_resources(c, params)
        if dead:
            for n in st.order_listed:
                kw = st.spec[n].get('kw', {})
                if st.is_leaf(n) and not kw.get('milestone') and kw.get('resource') in dead:
                    if params['dir'] == 'bwd' or not kw.get('start') or not kw.get('end'):
                        if (params['dir'] == 'bwd') or not kw.get('start'):
                            must_raise = must_raise or f'resource {kw.get("resource")} never becomes available'
                        may_raise = True
        self.unschedulable = must_raise
        if must_raise and out['outcome'] == 'ok':
            vs.append(so.V('C14', 'undiagnosed', f'calc returned a schedule although {must_raise}', c))
            self.count('probe.unschedulable_returned')
        elif must_raise:
            self.count('probe.unschedulable_diagnosed')
        elif out['outcome'] == 'exc' and not may_raise and sc.get('klass') in ('ok', 'late_cycle') and not self.fragile(params):
            vs.append(so.V('C14', 'spurious-diagnosis', f'schedulable input rejected: {exc[1]}', c))
        return vs

    def dead_resources(self, c, params):
        out = set()
        for r in self.sc.get('resources', []):
            if r['name'] not in params.get('resources', []):
                continue
            if r['kind'] == 'sim':
                if not any(x > 0 for x in r['weekly']) and not any(v > 0 for v in r.get('overrides', {}).values()):
                    out.add(r['name'])
            elif r.get('cal', {}).get('t') in ('fixed', 'direct', 'weekly') and self.sc.get('klass') == 'never_available':
                cal = r['cal']
                if cal['t'] == 'fixed' and cal['units'] == 0:
                    out.add(r['name'])
                elif cal['t'] == 'direct' and not cal['map']:
                    out.add(r['name'])
                elif cal['t'] == 'weekly' and cal['units'] == 0:
                    out.add(r['name'])
                elif cal['t'] == 'weekly' and c.proj is not None and (
                        (cal.get('end') and params['dir'] == 'fwd' and D(cal['end']) < c.proj and not cal.get('start')) or
                        (cal.get('start') and params['dir'] == 'bwd' and D(cal['start']) > c.proj and not cal.get('end'))):
                    out.add(r['name'])
        return out

    def fragile(self, params):
        """scenario features for which 'must return' is not claimed: the backward scheduler gives up after
        1000 consecutive unusable days, so a lot of work on a very sparse resource is legitimately diagnosed"""
        if params['dir'] != 'bwd':
            return False
        st, sc = self.st, self.sc
        work = {}
        for n in st.order_listed:
            kw = st.spec[n].get('kw', {})
            if st.is_leaf(n) and not kw.get('milestone'):
                est = kw.get('estimate')
                if est is None:
                    est = params.get('default_estimate') or 0
                work[kw.get('resource')] = work.get(kw.get('resource'), 0) + max(est - (kw.get('spent') or 0), 0)
        for rn, wk in work.items():
            r = self.w.resources.get(rn) if rn in params.get('resources', []) else None
            if r is None:
                weekly = 40
            else:
                # the backward scheduler walks into the past: look at the capacity of weeks BEFORE the deadline
                # (a calendar that only starts shortly before the deadline leaves next to nothing back there)
                end = self.sched_proj.get('A') or DT(2024, 1, 1)
                weekly = None
                for back in (7, 35, 400):
                    base = day(end) - _dt.timedelta(days=back)
                    vals = [(r.cap(base + _dt.timedelta(days=i)) if hasattr(r, 'cap') else
                             r.get_available_units(base + _dt.timedelta(days=i), None)) or 0 for i in range(7)]
                    wsum = sum(v for v in vals if v > 0)
                    weekly = wsum if weekly is None else min(weekly, wsum)
            if weekly <= 0 or wk / weekly * 7 > 300:
                return True
        return False

    # ---- balancing off: removing an unrelated task changes nothing (C08)
    def step_minus(self, i, op, params, pre):
        w, st = self.w, self.st
        ref = self.views.get(op['ref'])
        name = op['remove']
        if ref is None or name not in w.tasks or params.get('balance', True) or params['dir'] != 'fwd' or self.edited:
            return []
        # with a moving clock the number of reads before each task changes when a task is removed
        ref_clock = self.sc['ops'][op['ref']]['clock']
        if ref_clock['kind'] != 'frozen' or op['clock'] != ref_clock:
            return []
        clone = w.wbs.clone()
        clone.remove(clone[w.id_of[name]])
        out = w.calc(dict(op, op='calc', fresh=True, sched=op['sched']), wbs=clone)
        self.log.add('calc_minus', i, name, out['outcome'], out.get('exc'))
        if out['outcome'] != 'ok':
            return []
        view = result_view(w, out['result'])
        comp = comparable(view)
        c = so.Ctx(w, st, op, out, view, params, self.sched_proj.get(op['sched']))
        related = st.component(name)
        self.count('probe.balance_off_removal_compared')
        for n, v in comp['tasks'].items():
            if n in related or not st.is_leaf(n):
                continue
            if ref['tasks'].get(n) != v:
                return [so.V('C08', 'depends-on-unrelated', f'after removing unrelated {name}, {n} moved from {ref["tasks"].get(n)} to {v}', c)]
        return []

    # ---- reach probes
    def probes(self, c, op, out, view):
        reads = out['reads']
        ck = op['clock']
        if reads:
            if len({r.date() for r in reads}) > 1:
                self.count('probe.clock_crossed_midnight_inside_calc')
            if ck['kind'] in ('jump', 'back') and 1 <= ck['at'] < len(reads):
                self.count('probe.clock_jump_inside_calc')
                if ck['kind'] == 'back':
                    self.count('probe.clock_stepped_back_inside_calc')
            if c.proj is not None and max(reads) > c.proj:
                self.count('probe.clock_later_than_start')
            if c.proj is not None and max(reads) <= c.proj:
                self.count('probe.clock_not_later_than_start')
        self.count('clock.' + ck['kind'])
        if c.dir == 'bwd' and not reads and out['outcome'] == 'ok':
            self.count('probe.backward_calc_zero_clock_reads')
        if view:
            seen = {}
            for (rn, d, tn, u) in view['rows']:
                if (rn, d) in seen and seen[(rn, d)] != tn:
                    self.count('probe.partially_booked_day_shared')
                    break
                seen[(rn, d)] = tn
            for (rn, d, tn, u) in view['rows']:
                cap = c.cap(rn, d)
                if cap is not None and cap != int(cap):
                    self.count('probe.fractional_capacity_day')
                    break
        st = self.st
        for n in st.order_listed:
            if not st.is_leaf(n) and st.preds[n]:
                self.count('probe.summary_level_link')
                break


def wbs_snapshot(wbs):
    from .sworld import fields
    return [(t.id, t.parent.id if t.parent else None, [c.id for c in t.children], [p.id for p in t.predecessors],
             [x.id for x in t.successors], fields(t)) for t in wbs.tasks]


def diff_input(a, b, ext):
    if a['roots'] != b['roots'] or a['attrs'] != b['attrs'] or a['order'] != b['order']:
        return 'WBS roots/attributes/order changed'
    for n, d in a['tasks'].items():
        if n in ext:
            continue
        if d != b['tasks'].get(n):
            for k in d:
                if d[k] != b['tasks'][n][k]:
                    return f'{n}.{k}: {d[k]} -> {b["tasks"][n][k]}'
    return None


def first_diff(a, b):
    for n in a['tasks']:
        if a['tasks'][n] != b['tasks'].get(n):
            return f'{n}: {a["tasks"][n]} vs {b["tasks"].get(n)}'
    if a['rows'] != b['rows']:
        for i, (x, y) in enumerate(zip(a['rows'], b['rows'])):
            if x != y:
                return f'row {i}: {x} vs {y}'
        return f'{len(a["rows"])} rows vs {len(b["rows"])}'
    return 'equal'


# --------------------------------------------------------------------------- entry points

def run_seed(seed, prop, quarantine=(), keep_log=False):
    sc = sgen.make_scenario(core.Streams(seed), quarantine)
    sc['seed'] = seed
    return Run(sc, prop, quarantine, keep_log).run()


def regenerate(seed, prop, quarantine=()):
    sc = sgen.make_scenario(core.Streams(seed), quarantine)
    sc['seed'] = seed
    sc['quarantine'] = list(quarantine)
    return sc


def replay(trace, prop, keep_log=False):
    sc = _copy.deepcopy(trace)
    return Run(sc, prop, trace.get('quarantine', ()), keep_log).run()


def result_digests(seeds, quarantine=()):
    """per-seed digest of everything the calcs of a scenario returned (used across interpreters)"""
    out = {}
    for seed in seeds:
        r = run_seed(seed, 'C06', quarantine, keep_log=False)
        out[str(seed)] = r.log.digest()
    return out


def cross_interpreter(prop, seeds, quarantine):
    """C06 (iv): the same seeds in a fresh interpreter under another PYTHONHASHSEED must give the same results.
    Returns a list of (seed, violation dict) for seeds whose digests differ."""
    if prop != 'C06':
        return []
    import json as _json
    import os as _os
    import subprocess as _sp
    import sys as _sys
    seeds = list(seeds)[:150]
    mine = result_digests(seeds, quarantine)
    env = dict(_os.environ, PYTHONHASHSEED='271828')
    code = ("import sys, json; sys.path.insert(0, %r); from sim import core, smachine; core.TIER = %r; core.load_pjplan(); "
            "print('XD ' + json.dumps(smachine.result_digests(%r, %r)))" % (core.VERIF_DIR, core.TIER, seeds, list(quarantine)))
    p = _sp.run([_sys.executable, '-c', code], capture_output=True, text=True, env=env, timeout=1800)
    other = None
    for line in p.stdout.splitlines():
        if line.startswith('XD '):
            other = _json.loads(line[3:])
    if other is None:
        raise core.HarnessError('cross-interpreter digest run failed: ' + p.stderr[-500:])
    bad = [int(k) for k in mine if mine[k] != other.get(k)]
    return [(sd, {'property': 'C06', 'clause': 'differs-across-interpreters',
                  'sig': 'C06/differs-across-interpreters', 'detail': f'seed {sd}: results differ under PYTHONHASHSEED=271828', 'step': 0})
            for sd in bad[:3]]


def amplify(trace, prop):
    """C06 only: repeat the first calc many times on the same and on fresh scheduler objects"""
    if prop != 'C06':
        return None
    sc = _copy.deepcopy(trace)
    op0 = sc['ops'][0]
    sc['ops'] = [op0] + [{'op': 'calc', 'sched': op0['sched'], 'fresh': i % 2 == 0, 'clock': op0['clock'], 'equal_to': 0}
                         for i in range(60)]
    return sc


def shrink(trace, prop, clause):
    base = _copy.deepcopy(trace)

    def fails(sc):
        try:
            r = replay(sc, prop)
        except core.HarnessError:
            return False
        except Exception:  # noqa  (scenario no longer constructible)
            return False
        return r.violation is not None and r.violation.clause == clause

    if not fails(base):
        return base
    cur = base
    budget = [600]

    def attempt(mut):
        if budget[0] <= 0:
            return False
        budget[0] -= 1
        sc = _copy.deepcopy(cur)
        if mut(sc) is False:
            return False
        return sc if fails(sc) else False

    changed = True
    while changed and budget[0] > 0:
        changed = False
        # ops (keep #0; the others only refer to #0)
        for i in range(len(cur['ops']) - 1, 0, -1):
            r = attempt(lambda sc, i=i: sc['ops'].pop(i))
            if r:
                cur, changed = r, True
        # tasks
        for t in list(cur['tasks']):
            def drop(sc, name=t['name']):
                if len(sc['tasks']) <= 1:
                    return False
                sc['tasks'] = [x for x in sc['tasks'] if x['name'] != name]
                for x in sc['tasks']:
                    if x.get('parent') == name:
                        x['parent'] = None
                sc['links'] = [l for l in sc['links'] if name not in l]
                for o in sc['ops']:
                    if o.get('remove') == name:
                        return False
            r = attempt(drop)
            if r:
                cur, changed = r, True
        for l in list(cur['links']):
            r = attempt(lambda sc, l=l: sc['links'].remove(l))
            if r:
                cur, changed = r, True
        for e in list(cur.get('external', [])):
            def drop_e(sc, name=e['name']):
                sc['external'] = [x for x in sc['external'] if x['name'] != name]
                sc['links'] = [l for l in sc['links'] if name not in l]
            r = attempt(drop_e)
            if r:
                cur, changed = r, True
        for res in list(cur.get('resources', [])):
            def drop_r(sc, name=res['name']):
                sc['resources'] = [x for x in sc['resources'] if x['name'] != name]
                for p in sc['schedulers'].values():
                    p['resources'] = [x for x in p.get('resources', []) if x != name]
            r = attempt(drop_r)
            if r:
                cur, changed = r, True
            else:
                def simplify_r(sc, name=res['name']):
                    for x in sc['resources']:
                        if x['name'] == name:
                            if x.get('kind') == 'real' and x['cal'] != {'t': 'weekly', 'days': [0, 1, 2, 3, 4], 'units': 8}:
                                x['cal'] = {'t': 'weekly', 'days': [0, 1, 2, 3, 4], 'units': 8}
                                return None
                            if x.get('kind') == 'sim' and x.get('overrides'):
                                x['overrides'] = {}
                                return None
                    return False
                r = attempt(simplify_r)
                if r:
                    cur, changed = r, True
        for ti, t in enumerate(cur['tasks']):
            for k in list(t.get('kw', {})):
                r = attempt(lambda sc, ti=ti, k=k: sc['tasks'][ti]['kw'].pop(k))
                if r:
                    cur, changed = r, True
            if t.get('parent'):
                r = attempt(lambda sc, ti=ti: sc['tasks'][ti].__setitem__('parent', None))
                if r:
                    cur, changed = r, True
        for oi, o in enumerate(cur['ops']):
            if 'clock' in o and o['clock'].get('kind') != 'frozen':
                r = attempt(lambda sc, oi=oi: sc['ops'][oi].__setitem__('clock', {'kind': 'frozen', 't': sc['ops'][oi]['clock']['t']}))
                if r:
                    cur, changed = r, True
        for key in ('default_estimate',):
            for sk in cur['schedulers']:
                if key in cur['schedulers'][sk]:
                    r = attempt(lambda sc, sk=sk: sc['schedulers'][sk].pop(key))
                    if r:
                        cur, changed = r, True
    return cur


def chunk(payload):
    core.TIER = payload.get('tier', 'quick')
    prop, seeds, quarantine = payload['prop'], payload['seeds'], payload['quarantine']
    agg = core.Agg()
    for seed in seeds:
        r = run_seed(seed, prop, quarantine)
        agg.runs += 1
        agg.ops += r.steps
        for k, v in r.counters.items():
            agg.counters[k] += v
        agg.states |= r.states
        agg.transitions |= r.transitions
        agg.sim_seconds += r.sim_seconds
        if r.nontrivial:
            agg.end_states.add(r.end_state)
        if r.violation is not None:
            agg.violations.append((seed, r.violation.as_dict()))
        if len(agg.samples) < 2:
            sc = r.sc
            agg.samples.append({'seed': seed, 'tasks': [[t['name'], t.get('parent'), t['kw']] for t in sc['tasks']][:6],
                                'links': sc['links'][:6], 'scheduler': sc['schedulers']['A'], 'ops': sc['ops'][:3]})
    return agg


TIER_RUNS = {
    'quick': {'default': 12000},
    'thorough': {'default': 300000},
}

QUARANTINE_OF = {
    'C06/clock-dependent/fwd/bal/clock-on-nonmidnight-start-day': ['F17'],
    'C06/clock-dependent/fwd/nobal/clock-on-nonmidnight-start-day': ['F17'],
    'C08/end-encoding/fwd/bal/clock-on-nonmidnight-start-day': ['F17'],
}

ASSUMPTIONS = {
    'default': [
        'sampling by seed: a clean batch is evidence, not proof; quick: <= 10 tasks, depth <= 3; thorough: <= 14 tasks, depth <= 4; <= 3 supplied resources, up to 8 calc / edit steps per scenario',
        'capacity of a day = what the calendar object (or the peer table) answers for that day, asked directly and not through Resource.get_available_units (calendar validity bounds are generated day-aligned); calendar semantics themselves are property C17 (not applicable to this technique) and are trusted here',
        'clauses that relate values derived from different clock reads are judged only when all reads of the call fall on one calendar day or none is later than the project start; one-sided clauses are judged under every clock policy',
        'a completed task is one with a user-fixed end; fixed ends are generated together with a fixed start <= end; backward scenarios judged under C09 carry no user-fixed dates and no external predecessors',
    ],
}

RULE = ('one run = seeded scenario (1-10 tasks, hierarchy depth <= 3, links on leaves and summaries in every WBS-order '
        'arrangement, estimates/spent incl. fractions and spent > estimate, milestones, fixed dates, min_start, external '
        'predecessors, real Resource over composed calendars or the SimResource peer (optionally with per-task capacity), '
        'unschedulable classes) + a history of calc calls and edits (same/fresh scheduler object, other scheduler or other WBS in '
        'between, peer failure then healthy repeat, WBS / calendar edited between calcs, re-parenting, result fed back, clock '
        'policies frozen/tick/jump/step-back placed relative to the project date, early-clock re-runs, balance-off removal re-run). '
        'distinct_nontrivial = distinct end-of-run result digests among runs with >=1 reservation row and (forward) >=1 clock read.')


def coverage(prop, agg, tier, wall, workers):
    c = agg.counters
    return {
        'evaluations': agg.runs,
        'distinct_nontrivial': len(agg.end_states),
        'rule': RULE,
        'samples': agg.samples[:3],
        'calcs_executed': agg.ops,
        'states': len(agg.states),
        'transitions': len(agg.transitions),
        'distinct_states_measure': 'blake2b-64 of (task dates, usage rows) per calc result; transitions = (direction, balance, outcome, exception, clock policy, peer fault)',
        'faults_fired': dict({k[len('fault.'):]: v for k, v in sorted(c.items()) if k.startswith('fault.')}, **{
            'clock_jump_inside_calc': c.get('probe.clock_jump_inside_calc', 0),
            'clock_stepped_back_inside_calc': c.get('probe.clock_stepped_back_inside_calc', 0),
            'clock_crossed_midnight_inside_calc': c.get('probe.clock_crossed_midnight_inside_calc', 0),
            'wbs_edited_between_calcs': c.get('probe.wbs_edited_between_calcs', 0),
            'calendar_edited_between_calcs': c.get('probe.calendar_edited_between_calcs', 0),
            'result_fed_back_into_scheduler': c.get('probe.result_fed_back_into_scheduler', 0),
            'scheduler_reused_for_other_wbs': c.get('probe.scheduler_reused_for_other_wbs', 0)}),
        'clock_policies': {k[len('clock.'):]: v for k, v in sorted(c.items()) if k.startswith('clock.')},
        'probes': {k[len('probe.'):]: v for k, v in sorted(c.items()) if k.startswith('probe.')},
        'runs_stopped_by_other_property': {k[len('poisoned_by.'):]: v for k, v in sorted(c.items()) if k.startswith('poisoned_by.')},
        'calc_ok': {k[len('calc_ok.'):]: v for k, v in sorted(c.items()) if k.startswith('calc_ok.')},
        'runs_per_hour': int(agg.runs / wall * 3600) if wall > 0 else 0,
        'seeds_per_hour': int(agg.runs / wall * 3600) if wall > 0 else 0,
        'simulated_time_covered_s': round(agg.sim_seconds, 3),
        'simulated_time_note': 'sum over calcs of (latest - earliest simulated clock value read inside the call)',
        'workers': workers,
    }
