"""Render machine (C19): the three renderers under the simulated clock.

Workload: a WBS scheduled by the real forward/backward scheduler (schedule-machine scenario),
decorated with adversarial single-line names, sections and style attributes, rendered with the
clock frozen before / inside / after the tasks or ticking between the per-task reads."""
import copy as _copy
import datetime as _dt
import html as _html
import json as _json
import re

from . import core
from . import sgen
from .sworld import SWorld, DT, D

PROPS = ('C19',)

NAME_PARTS = ['a', 'Task', ' ', '"', "'", '{', '}', '{{', '}}', '<', '>', '<b>', '</script>', '</div>', '<!--', '-->', ']]>', '$', '${x}', '$src',
              '$gantt_data', ':', ',', '#', '%', '%%', ';', 'é', '日本語', '\\', '-->', '&amp;', '&', 'id_1', 'milestone', 'done',
              'section', '(', ')', '[', ']', '|', '`', '=']


def rand_name(r, quarantine):
    for _ in range(20):
        n = ''.join(r.choice(NAME_PARTS) for _ in range(r.randint(1, 4)))
        if 'net-braces' in quarantine and ('}}' in n.replace('"', '') or n.replace('"', '').endswith('}')):
            continue
        if 'mermaid-div' in quarantine and '</div>' in n.lower().replace('"', '').replace(':', ''):
            continue
        if 'dhtmlx-script' in quarantine and '</script' in n.lower():
            continue
        return n
    return 'plain'


def make_scenario(streams, quarantine=()):
    sc = sgen.make_scenario(streams, ())
    r = streams('render')
    sc['machine'] = 'render'
    sc['ops'] = sc['ops'][:1]
    dec = {}
    sections = r.random() < 0.5
    pool = r.choice([['S1', 'S2', 'Phase A'], ['Gates'], ['S1', 'S2']])   # also: one single section name on some tasks only
    for t in sc['tasks']:
        d = {'name': rand_name(r, quarantine)}
        if sections and r.random() < 0.6:
            d['gantt_section'] = r.choice(pool)
        if r.random() < 0.2:
            d['gantt_bar_style'] = {'fill': r.choice(['red', '#0f0']), 'progress': {'fill': 'blue'}} if r.random() < 0.5 else {'fill': 'red'}
        if r.random() < 0.15:
            d['gantt_text_style'] = {'fill': 'white'}
        if r.random() < 0.15:
            d['network_bar_style'] = {'fill': '#f9f'}
        if r.random() < 0.1:
            d['gantt_open'] = r.choice(['true', 'false'])
        dec[t['name']] = d
    sc['decor'] = dec
    k = r.choice(['before', 'inside', 'after', 'tick', 'at_start', 'at_end'])
    sc['rclock'] = {'pos': k, 'which': r.randrange(max(1, len(sc['tasks']))), 'step_us': r.choice([1, 1000, 3_600_000_000, 86_400_000_000])}
    return sc


FMT_M = '%d.%m.%Y %H:%M'
FMT_D = '%d-%m-%Y %H:%M'


def script_contents(doc):
    """HTML-aware scan: contents of every <script> element (a script ends at the first </script)"""
    out = []
    low = doc.lower()
    i = 0
    while True:
        s = low.find('<script', i)
        if s < 0:
            break
        gt = low.find('>', s)
        e = low.find('</script', gt)
        if gt < 0 or e < 0:
            out.append(doc[gt + 1:] if gt >= 0 else '')
            break
        out.append(doc[gt + 1:e])
        i = e + 8
    return out


def mermaid_source(doc):
    """text content of <div class="mermaid"> (ends at the first </div)"""
    m = re.search(r'<div class="mermaid">\n', doc)
    if not m:
        return None
    e = doc.lower().find('</div', m.end())
    if e < 0:
        return None
    return doc[m.end():e]


def parse_node(s, i):
    """Mermaid flowchart node at s[i:]: id((text)) or id{{text}}; the text ends at the FIRST closer"""
    j = i
    while j < len(s) and s[j] not in ' {(':
        j += 1
    ident = s[i:j]
    if not ident:
        return None
    for opener, closer in (('{{', '}}'), ('((', '))')):
        if s.startswith(opener, j):
            e = s.find(closer, j + 2)
            if e < 0:
                return None
            return ident, s[j + 2:e], e + 2
    return None


def parse_edge(ln):
    if not ln.startswith('  '):
        return None
    a = parse_node(ln, 2)
    if a is None or not ln.startswith(' --> ', a[2]):
        return None
    b = parse_node(ln, a[2] + 5)
    if b is None or b[2] != len(ln):
        return None
    return (a[0], b[0])


class Run:
    def __init__(self, sc, prop, keep_log=True):
        self.sc, self.prop = sc, prop
        self.log = core.EventLog(keep=keep_log)
        self.violation = None
        self.counters = {}
        self.steps = 0
        self.nontrivial = False
        self.end_state = 0
        self.sim_seconds = 0.0

    def count(self, k, n=1):
        self.counters[k] = self.counters.get(k, 0) + n

    def trigger(self, renderer):
        """is one of the name shapes present that are known to break this renderer's text?"""
        if renderer == 'gantt':
            if any('</div' in t.name.replace(':', '').lower() for t in self.tasks):
                return 'name-closes-div'
        if renderer == 'network':
            names = [t.name.replace('"', '') for t in self.tasks]
            if any('}}' in n or n.endswith('}') for n in names):
                return 'name-closes-braces'
            if any('</div' in n.lower() for n in names):
                return 'name-closes-div'
        if renderer == 'dhtmlx':
            if any('</script' in str(v).lower() for t in self.tasks for v in t.__dict__.values()):
                return 'name-closes-script'
        return None

    def V(self, clause, detail, shape='-'):
        trig = self.trigger(shape) if shape in ('gantt', 'network', 'dhtmlx') and clause != 'notebook-repr' else None
        if trig:
            clause, shape = f'{shape}-altered-by-name', trig
        self.violation = core.Violation('C19', clause, f'C19/{clause}/{shape}', detail, self.steps)
        return self

    def run(self):
        pj = core.load_pjplan()
        sc = self.sc
        w = SWorld(sc)
        out = w.calc(sc['ops'][0])
        if out['outcome'] != 'ok':
            self.count('skipped_unschedulable')
            self.log.add('skip')
            return self
        wbs = out['result'].schedule
        tasks = list(wbs.tasks)
        by_name = {}
        for t in tasks:
            n = w.name_of_id.get(t.id)
            by_name[n] = t
            for k, v in sc['decor'].get(n, {}).items():
                setattr(t, k, v)
        if any(t.start is None or t.end is None for t in tasks):
            self.count('skipped_missing_dates')
            return self
        # clock position relative to the tasks
        rc = sc['rclock']
        starts, ends = [t.start for t in tasks], [t.end for t in tasks]
        tk = tasks[rc['which'] % len(tasks)]
        pos = rc['pos']
        if pos == 'before':
            spec = {'kind': 'frozen', 't': core.iso(min(starts) - _dt.timedelta(days=3))}
        elif pos == 'after':
            spec = {'kind': 'frozen', 't': core.iso(max(ends) + _dt.timedelta(days=3))}
        elif pos == 'inside':
            spec = {'kind': 'frozen', 't': core.iso(tk.start + (tk.end - tk.start) / 2)}
        elif pos == 'at_start':
            spec = {'kind': 'frozen', 't': core.iso(tk.start)}
        elif pos == 'at_end':
            spec = {'kind': 'frozen', 't': core.iso(tk.end)}
        else:
            spec = {'kind': 'tick', 't': core.iso(min(starts) - _dt.timedelta(hours=1)), 'step_us': rc['step_us']}
        self.count('clock.' + pos)
        self.spec = spec
        self.tasks, self.wbs, self.pj = tasks, wbs, pj
        frozen = spec['kind'] == 'frozen'
        for name, fn in (('gantt', self.check_gantt), ('network', self.check_network), ('dhtmlx', self.check_dhtmlx)):
            core.CLOCK.set(spec)
            self.steps += 1
            try:
                r = fn(frozen)
            except Exception as e:  # noqa
                import traceback
                return self.V('renderer-raised', f'{name}: {type(e).__name__}: {e}', name)
            reads = core.CLOCK.reads
            if reads:
                self.sim_seconds += (max(reads) - min(reads)).total_seconds()
                self.count('clock_reads.' + name, len(reads))
            self.log.add('render', name, len(reads), r is None)
            if r is not None:
                return r
        self.nontrivial = len(tasks) > 1
        return self

    # ---- Mermaid Gantt
    def check_gantt(self, frozen):
        g = self.pj.MermaidGantt(self.wbs, height=222)
        doc = g.to_html()
        self.end_state = core.hash64(doc)
        src = mermaid_source(doc)
        if src is None:
            return self.V('gantt-source-missing', 'no mermaid source in document', 'gantt')
        lines = src.split('\n')
        tasks = self.tasks
        sect_of = {t.id: (t.gantt_section if 'gantt_section' in t.__dict__ else '-') for t in tasks}
        use_sections = len(set(sect_of.values())) > 1
        cur = None
        found = {}
        for ln in lines:
            if ln.startswith('  section '):
                cur = ln[len('  section '):]
                continue
            if not ln.startswith('    '):
                continue
            body = ln[4:]
            if ':' not in body:
                return self.V('gantt-line-malformed', f'task line without separator: {ln!r}', 'gantt')
            name, meta = body.split(':', 1)
            parts = [p.strip() for p in meta.split(',')]
            ids = [p for p in parts if p.startswith('id_')]
            if len(ids) != 1 or len(parts) < 3:
                return self.V('gantt-line-malformed', f'cannot read id/dates from {ln!r}', 'gantt')
            found.setdefault(ids[0], []).append((name, parts, cur))
        for t in tasks:
            key = f'id_{t.id}'
            got = found.get(key, [])
            if len(got) != 1:
                return self.V('gantt-task-lines', f'{len(got)} task lines for task {t.id} (name {t.name!r})', 'gantt')
            name, parts, sec = got[0]
            if parts[-2] != t.start.strftime(FMT_M) or parts[-1] != t.end.strftime(FMT_M):
                return self.V('gantt-dates', f'task {t.id}: line has {parts[-2:]} for {t.start}..{t.end}', 'gantt')
            tags = [x for p in parts[:-2] for x in p.split() if not x.startswith('id_')]
            if ('milestone' in tags) != bool(t.milestone):
                return self.V('gantt-milestone-flag', f'task {t.id}: milestone={t.milestone}, tags {tags}', 'gantt')
            if use_sections and sec != sect_of[t.id]:
                return self.V('gantt-section', f'task {t.id} is under section {sec!r}, belongs to {sect_of[t.id]!r}', 'gantt')
        extra = set(found) - {f'id_{t.id}' for t in tasks}
        if extra:
            return self.V('gantt-task-lines', f'task lines for unknown ids {sorted(extra)}', 'gantt')
        if frozen:
            core.CLOCK.set(self.spec)
            rep = g._repr_html_()
            core.CLOCK.set(self.spec)
            exp = _html.escape(g.to_html())
            if f'srcdoc="{exp}"' not in rep or not rep.startswith('<iframe ') or 'height="222"' not in rep:
                return self.V('notebook-repr', 'MermaidGantt._repr_html_ is not the iframe with the escaped document', 'gantt')
        return None

    # ---- Mermaid network
    EDGE = re.compile(r'^  (?:(0)\(\(Start\)\)|([^\s{]+)\{\{(.*?)\}\}) --> ([^\s{]+)\{\{(.*?)\}\}$')

    def check_network(self, frozen):
        nw = self.pj.MermaidNetwork(self.wbs, height=111)
        doc = nw.to_html()
        src = mermaid_source(doc)
        if src is None:
            return self.V('network-source-missing', 'no mermaid source in document', 'network')
        edges = []
        for ln in src.split('\n'):
            if ln.startswith('flowchart') or ln.startswith('style ') or ln == '':
                continue
            e = parse_edge(ln)
            if e is None:
                return self.V('network-edge-altered', f'line is not exactly one edge: {ln!r}', 'network')
            edges.append(e)
        exp = []
        for t in self.tasks:
            if len(t.predecessors) == 0:
                exp.append(('0', str(t.id)))
            for p in t.predecessors:
                exp.append((str(p.id), str(t.id)))
        if sorted(edges) != sorted(exp):
            return self.V('network-edges', f'edges {sorted(edges)}, expected {sorted(exp)}', 'network')
        if frozen:
            rep = nw._repr_html_()
            if f'srcdoc="{_html.escape(nw.to_html())}"' not in rep or 'height="111"' not in rep:
                return self.V('notebook-repr', 'MermaidNetwork._repr_html_ is not the iframe with the escaped document', 'network')
        return None

    # ---- DHTMLX
    def dhtmlx_payload(self, doc):
        for sc in script_contents(doc):
            i = sc.find('gantt.parse(')
            if i >= 0:
                try:
                    obj, end = _json.JSONDecoder().raw_decode(sc[i + len('gantt.parse('):].lstrip())
                except ValueError as e:
                    return None, f'not well-formed JSON: {e}'
                return obj, None
        return None, 'no gantt.parse( call inside a script element'

    def check_dhtmlx(self, frozen):
        g = self.pj.DhtmlxGantt(self.wbs, height=333)
        doc = g.to_html()
        obj, err = self.dhtmlx_payload(doc)
        tasks = self.tasks
        if obj is None:
            return self.V('dhtmlx-json', err, 'dhtmlx')
        data, links = obj.get('data'), obj.get('links')
        if not isinstance(data, list) or not isinstance(links, list):
            return self.V('dhtmlx-json', 'payload lacks data/links lists', 'dhtmlx')
        by = {}
        for d in data:
            by.setdefault(d.get('id'), []).append(d)
        members = {id(t) for t in tasks}
        for t in tasks:
            got = by.get(t.id, [])
            if len(got) != 1:
                return self.V('dhtmlx-entries', f'{len(got)} entries for task {t.id}', 'dhtmlx')
            d = got[0]
            if d.get('text') != t.name:
                return self.V('dhtmlx-entry', f'task {t.id}: text {d.get("text")!r}, name {t.name!r}', 'dhtmlx')
            if d.get('start_date') != t.start.strftime(FMT_D) or d.get('end_date') != t.end.strftime(FMT_D):
                return self.V('dhtmlx-entry', f'task {t.id}: dates {d.get("start_date")}..{d.get("end_date")} for {t.start}..{t.end}', 'dhtmlx')
            exp_parent = t.parent.id if t.parent is not None and id(t.parent) in members else 0
            if d.get('parent') != exp_parent:
                return self.V('dhtmlx-entry', f'task {t.id}: parent {d.get("parent")}, expected {exp_parent}', 'dhtmlx')
            p = d.get('progress')
            if not isinstance(p, (int, float)) or isinstance(p, bool) or not (0 <= p <= 1):
                return self.V('dhtmlx-progress', f'task {t.id}: progress {p!r}', 'dhtmlx')
        if len(data) != len(tasks):
            return self.V('dhtmlx-entries', f'{len(data)} entries for {len(tasks)} tasks', 'dhtmlx')
        exp_links = sorted((p.id, t.id) for t in tasks for p in t.predecessors)
        if sorted((l.get('source'), l.get('target')) for l in links) != exp_links:
            return self.V('dhtmlx-links', f'links {[(l.get("source"), l.get("target")) for l in links]}, dependencies {exp_links}', 'dhtmlx')
        if sorted(l.get('id') for l in links) != list(range(1, len(links) + 1)):
            return self.V('dhtmlx-links', f'link ids {[l.get("id") for l in links]} are not 1..{len(links)}', 'dhtmlx')
        # differential: names replaced by 'x' must give the same entries modulo the name fields
        saved = [t.name for t in tasks]
        for t in tasks:
            t.name = 'x'
        try:
            core.CLOCK.set(self.spec)
            obj2, err2 = self.dhtmlx_payload(g.to_html())
        finally:
            for t, n in zip(tasks, saved):
                t.name = n
        if obj2 is None:
            return self.V('dhtmlx-json', 'plain-name rendering: ' + str(err2), 'dhtmlx')

        def strip(o):
            return {'data': [{k: v for k, v in d.items() if k not in ('text', 'name')} for d in o['data']], 'links': o['links']}
        if strip(obj) != strip(obj2):
            return self.V('dhtmlx-name-alters-entries', 'entries differ from the rendering with plain names', 'dhtmlx')
        if frozen:
            core.CLOCK.set(self.spec)
            rep = g._repr_html_()
            core.CLOCK.set(self.spec)
            if f'srcdoc="{_html.escape(g.to_html())}"' not in rep or 'height="333"' not in rep:
                return self.V('notebook-repr', 'DhtmlxGantt._repr_html_ is not the iframe with the escaped document', 'dhtmlx')
        return None


# --------------------------------------------------------------------------- entry points

def run_seed(seed, prop, quarantine=(), keep_log=False):
    sc = make_scenario(core.Streams(seed), quarantine)
    sc['seed'] = seed
    return Run(sc, prop, keep_log).run()


def regenerate(seed, prop, quarantine=()):
    sc = make_scenario(core.Streams(seed), quarantine)
    sc['seed'] = seed
    return sc


def replay(trace, prop, keep_log=False):
    return Run(_copy.deepcopy(trace), prop, keep_log).run()


def shrink(trace, prop, clause):
    cur = _copy.deepcopy(trace)

    def fails(sc):
        try:
            r = replay(sc, prop)
        except Exception:  # noqa
            return False
        return r.violation is not None and r.violation.clause == clause
    if not fails(cur):
        return cur
    changed, budget = True, 300
    while changed and budget > 0:
        changed = False
        for t in list(cur['tasks']):
            if len(cur['tasks']) <= 1:
                break
            sc = _copy.deepcopy(cur)
            sc['tasks'] = [x for x in sc['tasks'] if x['name'] != t['name']]
            for x in sc['tasks']:
                if x.get('parent') == t['name']:
                    x['parent'] = None
            sc['links'] = [l for l in sc['links'] if t['name'] not in l]
            sc['decor'].pop(t['name'], None)
            budget -= 1
            if fails(sc):
                cur, changed = sc, True
        for l in list(cur['links']):
            sc = _copy.deepcopy(cur)
            sc['links'].remove(l)
            budget -= 1
            if fails(sc):
                cur, changed = sc, True
        for n, d in list(cur['decor'].items()):
            for k in list(d):
                if k == 'name':
                    v = d['name']
                    for cut in (v[:len(v) // 2], v[len(v) // 2:], v[1:], v[:-1], 'a'):
                        if cut and cut != v:
                            sc = _copy.deepcopy(cur)
                            sc['decor'][n]['name'] = cut
                            budget -= 1
                            if fails(sc):
                                cur, changed = sc, True
                                break
                else:
                    sc = _copy.deepcopy(cur)
                    sc['decor'][n].pop(k)
                    budget -= 1
                    if fails(sc):
                        cur, changed = sc, True
        for ti, t in enumerate(cur['tasks']):
            for k in list(t['kw']):
                sc = _copy.deepcopy(cur)
                sc['tasks'][ti]['kw'].pop(k)
                budget -= 1
                if fails(sc):
                    cur, changed = sc, True
        for res in list(cur.get('resources', [])):
            sc = _copy.deepcopy(cur)
            sc['resources'] = [x for x in sc['resources'] if x['name'] != res['name']]
            for p in sc['schedulers'].values():
                p['resources'] = [x for x in p.get('resources', []) if x != res['name']]
            budget -= 1
            if fails(sc):
                cur, changed = sc, True
    return cur


def chunk(payload):
    core.TIER = payload.get('tier', 'quick')
    prop, seeds, quarantine = payload['prop'], payload['seeds'], payload['quarantine']
    agg = core.Agg()
    for seed in seeds:
        r = run_seed(seed, prop, quarantine)
        agg.runs += 1
        agg.ops += r.steps
        for k, v in r.counters.items():
            agg.counters[k] += v
        agg.states.add(r.end_state)
        agg.sim_seconds += r.sim_seconds
        agg.transitions.add((r.sc['rclock']['pos'], r.violation.clause if r.violation else 'ok'))
        if r.nontrivial:
            agg.end_states.add(r.end_state)
        if r.violation is not None:
            agg.violations.append((seed, r.violation.as_dict()))
        if len(agg.samples) < 2:
            agg.samples.append({'seed': seed, 'names': [d['name'] for d in r.sc['decor'].values()][:6], 'clock': r.sc['rclock'],
                                'links': r.sc['links'][:5]})
    return agg


TIER_RUNS = {'quick': {'default': 15000}, 'thorough': {'default': 600000}}
QUARANTINE_OF = {
    'C19/network-altered-by-name/name-closes-braces': ['net-braces'],
    'C19/gantt-altered-by-name/name-closes-div': ['mermaid-div'],
}
ASSUMPTIONS = {'default': [
    'sampling by seed; <= 10 tasks per WBS; names are single-line strings built from quotes, braces, angle brackets incl. </script> and </div>, $-placeholders, colon, comma, #, %, non-ASCII',
    'the rendered text is parsed by the simulator (line structure of the Mermaid source, HTML-aware scan for element ends, json for the DHTMLX payload); no browser, Mermaid or DHTMLX runtime is available in the sandbox, so what those libraries would do with a syntactically intact line is not modelled',
    'the renderers read the clock; it is simulated (frozen before/inside/at the edges of/after a task, or ticking between reads). The property fixes no meaning for done/active, so only progress bounds and replayability depend on it',
]}
RULE = ('one run = schedule-machine scenario scheduled by the real scheduler + seeded decoration (adversarial names, sections, style '
        'attributes) + clock position; the three renderers are parsed and compared with the WBS; DHTMLX additionally against a '
        'rendering with plain names. distinct_nontrivial = distinct Mermaid Gantt documents among runs with more than one task.')


def coverage(prop, agg, tier, wall, workers):
    c = agg.counters
    return {
        'evaluations': agg.runs,
        'distinct_nontrivial': len(agg.end_states),
        'rule': RULE,
        'samples': agg.samples[:3],
        'renderings': agg.ops,
        'states': len(agg.states),
        'transitions': len(agg.transitions),
        'clock_positions': {k[len('clock.'):]: v for k, v in sorted(c.items()) if k.startswith('clock.')},
        'clock_reads': {k[len('clock_reads.'):]: v for k, v in sorted(c.items()) if k.startswith('clock_reads.')},
        'faults_fired': {'clock_tick_between_reads': c.get('clock.tick', 0)},
        'skipped': {k: v for k, v in sorted(c.items()) if k.startswith('skipped')},
        'runs_per_hour': int(agg.runs / wall * 3600) if wall > 0 else 0,
        'seeds_per_hour': int(agg.runs / wall * 3600) if wall > 0 else 0,
        'simulated_time_covered_s': round(agg.sim_seconds, 3),
        'workers': workers,
    }
