"""Schedule machine, part 2: oracles for C02 C03 C04 C06 C07 C08 C09 C14.
All structure (hierarchy, prerequisites, leaves) is derived from the scenario by own code,
never from pjplan's traversal."""
import datetime as _dt

from . import core
from .sworld import DT, D, day

EPS = 1e-9
MS = _dt.timedelta(milliseconds=1)
H24 = _dt.timedelta(hours=24)
US = _dt.timedelta(microseconds=1)


def feq(a, b):
    return abs(a - b) <= EPS * max(1.0, abs(a), abs(b))


def fle(a, b):
    return a <= b + EPS * max(1.0, abs(a), abs(b))


def deq(a, b):
    return abs(a - b) <= MS


class Struct:
    """hierarchy and dependency structure of a scenario"""

    def __init__(self, sc):
        self.sc = sc
        self.spec = {t['name']: t for t in sc['tasks']}
        self.order_listed = [t['name'] for t in sc['tasks']]
        self.parent = {}
        self.children = {n: [] for n in self.spec}
        self.roots = []
        for t in sc['tasks']:
            p = t.get('parent')
            if p and p in self.spec:
                self.parent[t['name']] = p
                self.children[p].append(t['name'])
            else:
                self.parent[t['name']] = None
                self.roots.append(t['name'])
        self.ext = {e['name']: e for e in sc.get('external', [])}
        self.preds = {n: [] for n in self.spec}
        self.succs = {n: [] for n in list(self.spec) + list(self.ext)}
        for s, p in sc.get('links', []):
            if s in self.spec and (p in self.spec or p in self.ext) and p not in self.preds[s]:
                self.preds[s].append(p)
                self.succs[p].append(s)

    def is_leaf(self, n):
        return n in self.ext or not self.children[n]

    def leaves(self, n):
        if self.is_leaf(n):
            return [n]
        out = []
        for c in self.children[n]:
            out += self.leaves(c)
        return out

    def ancestors(self, n):
        out = []
        p = self.parent.get(n)
        while p:
            out.append(p)
            p = self.parent.get(p)
        return out

    def descendants(self, n):
        out = []
        for c in self.children.get(n, []):
            out.append(c)
            out += self.descendants(c)
        return out

    def wbs_order(self):
        out = []

        def go(n):
            out.append(n)
            for c in self.children[n]:
                go(c)
        for r in self.roots:
            go(r)
        return out

    def declared_prereqs(self, n):
        """predecessors declared on n and on every ancestor (task names, not expanded)"""
        out = []
        for x in [n] + self.ancestors(n):
            for p in self.preds[x]:
                if p not in out:
                    out.append(p)
        return out

    def prereq_leaves(self, leaf):
        out = []
        for p in self.declared_prereqs(leaf):
            for l in self.leaves(p):
                if l not in out:
                    out.append(l)
        return out

    def declared_succs(self, n):
        out = []
        for x in [n] + self.ancestors(n):
            for s in self.succs.get(x, []):
                if s not in out:
                    out.append(s)
        return out

    def succ_leaves(self, leaf):
        out = []
        for s in self.declared_succs(leaf):
            for l in self.leaves(s):
                if l not in out:
                    out.append(l)
        return out

    def expanded_cyclic(self):
        leaves = [n for n in self.spec if self.is_leaf(n)]
        g = {l: [x for x in self.prereq_leaves(l) if x in self.spec] for l in leaves}
        color = {}

        def visit(u):
            color[u] = 1
            for v in g[u]:
                c = color.get(v)
                if c == 1:
                    return True
                if c is None and visit(v):
                    return True
            color[u] = 2
            return False
        return any(color.get(l) is None and visit(l) for l in leaves)

    def in_dependency(self, n):
        """does n (or an ancestor) take part in any dependency?"""
        for x in [n] + self.ancestors(n):
            if self.preds[x] or self.succs.get(x):
                return True
        return False

    def component(self, n):
        """connected component over hierarchy + dependency edges (very conservative 'related')"""
        seen, stack = set(), [n]
        while stack:
            x = stack.pop()
            if x in seen:
                continue
            seen.add(x)
            if x in self.spec:
                nb = self.children[x] + ([self.parent[x]] if self.parent[x] else []) + self.preds[x] + self.succs.get(x, [])
            else:
                nb = self.succs.get(x, [])
            stack.extend(nb)
        return seen


class Ctx:
    """everything an oracle needs about one calc"""

    def __init__(self, w, st, op, out, view, params, proj_start):
        self.w, self.st, self.op, self.out, self.view, self.p = w, st, op, out, view, params
        self.dir = params['dir']
        self.balance = params.get('balance', True)
        self.defest = params.get('default_estimate')
        if self.defest is None:
            self.defest = 0
        self.reads = out['reads']
        self.r_min = min(self.reads) if self.reads else None
        self.r_max = max(self.reads) if self.reads else None
        self.proj = proj_start       # project start (fwd) or requested end (bwd)
        self.same_day = (not self.reads) or len({r.date() for r in self.reads}) == 1
        self.res_by_name = {}
        if out.get('result') is not None:
            for r in out['result'].resources:
                self.res_by_name.setdefault(r.name, r)
        self.rows_by_task = {}
        if view:
            for i, (rn, d, tn, u) in enumerate(view['rows']):
                self.rows_by_task.setdefault(tn, []).append((i, rn, d, u))

    def cap(self, rname, d):
        r = self.res_by_name.get(rname)
        if r is None:
            return None
        if hasattr(r, 'cap'):
            return r.cap(d)
        # ask the calendar itself, not the Resource wrapper: capacity must not come through anything the
        # scheduler may have cached
        cal = getattr(r, 'calendar', None)
        if cal is None:
            return r.get_available_units(DT(d.year, d.month, d.day), None)
        v = cal.get_available_units(DT(d.year, d.month, d.day))
        return 0 if v is None else v

    def cap_for(self, rname, d, tn):
        """capacity the resource offers to THIS task on that day (an IResource may answer per task)"""
        r = self.res_by_name.get(rname)
        if r is not None and hasattr(r, 'task_limits') and r.task_limits:
            return r.cap(d, self.w.id_of.get(tn))
        return self.cap(rname, d)

    def limited(self, rname, tn):
        r = self.res_by_name.get(rname)
        return r is not None and hasattr(r, 'task_limits') and self.w.id_of.get(tn) in r.task_limits

    def T(self, n):
        return self.view['tasks'][n]

    def end_of(self, n):
        if n in self.st.ext:
            return D(self.st.ext[n].get('end'))
        return self.T(n)['end']

    def start_of(self, n):
        return self.T(n)['start']

    def kw(self, n):
        return self.st.spec[n].get('kw', {})

    def remaining(self, n):
        kw = self.kw(n)
        est = kw.get('estimate')
        if est is None:
            est = self.defest
        sp = kw.get('spent') or 0
        return max(est - sp, 0)

    def booked(self, rname, d, upto_index=None, task=None):
        """sum of rows on (resource, day); optionally only rows with index <= upto_index / of one task"""
        s = 0
        for i, (rn, dd, tn, u) in enumerate(self.view['rows']):
            if rn == rname and dd == d and (upto_index is None or i <= upto_index) and (task is None or tn == task):
                s += u
        return s


def V(prop, clause, detail, ctx, shape=None):
    sig = f"{prop}/{clause}/{ctx.dir}/{'bal' if ctx.balance else 'nobal'}"
    if shape:
        sig += '/' + shape
    return core.Violation(prop, clause, sig, detail)


def f17_shape(c):
    """project start not at midnight and the clock of this call on the project-start day, not later than the start"""
    if c.proj is not None and c.proj != day(c.proj) and c.r_max is not None and c.r_max.date() == c.proj.date() and c.r_max <= c.proj:
        return 'clock-on-nonmidnight-start-day'
    return None


# --------------------------------------------------------------------------- C02

def check_c02(c):
    if c.dir != 'fwd':
        return None
    st = c.st
    for n in st.order_listed:
        if not st.is_leaf(n):
            continue
        kw = c.kw(n)
        t = c.T(n)
        pl = st.prereq_leaves(n)
        ends = [(q, c.end_of(q)) for q in pl]
        if kw.get('milestone'):
            known = [e for q, e in ends if e is not None]
            if not pl:
                if t['start'] != c.proj or t['end'] != c.proj:
                    return V('C02', 'milestone-placement', f'milestone {n} without prerequisites at {t["start"]}..{t["end"]}, project start {c.proj}', c)
            elif known and max(known) >= c.proj:
                if t['start'] != max(known) or t['end'] != max(known):
                    late = max(ends, key=lambda qe: qe[1])
                    return V('C02', 'milestone-placement', f'milestone {n} at {t["start"]}..{t["end"]}, latest prerequisite {late[0]} ends {late[1]}', c)
            continue
        if kw.get('start'):
            continue
        rows = c.rows_by_task.get(n, [])
        days = [('start', t['start'].date())] + [('work', d.date()) for _, _, d, _ in rows]
        for q, e in ends:
            if e is None:
                continue
            for what, dd in days:
                if dd < e.date():
                    return V('C02', 'before-prerequisite', f'{n} {what} on {dd} but prerequisite {q} ends {e}', c)
        for what, dd in days:
            if dd < c.proj.date():
                return V('C02', 'before-project-start', f'{n} {what} on {dd}, project start {c.proj}', c)
            if kw.get('min_start') and dd < D(kw['min_start']).date():
                return V('C02', 'before-min-start', f'{n} {what} on {dd}, min_start {kw["min_start"]}', c)
            if c.r_min is not None and dd < c.r_min.date():
                return V('C02', 'before-today', f'{n} {what} on {dd}, clock {c.r_min}', c)
    return None


# --------------------------------------------------------------------------- C03

def check_c03(c):
    st = c.st
    res = c.out['result']
    rows = c.view['rows']
    totals = {}
    per_task = {}
    for i, (rn, d, tn, u) in enumerate(rows):
        if not (u > 0):
            return V('C03', 'non-positive-row', f'row {i}: {u} units for {tn} on {d.date()}', c)
        want = c.kw(tn).get('resource') if tn in st.spec else '?'
        if rn != want:
            return V('C03', 'wrong-resource', f'row {i}: task {tn} names resource {want!r}, booked on {rn!r}', c)
        cap = c.cap_for(rn, d, tn)
        if cap is None or not (cap > 0):
            return V('C03', 'no-capacity-day', f'row {i}: {u} units for {tn} on {d.date()} where {rn!r} offers {cap}', c)
        totals[(rn, d)] = totals.get((rn, d), 0) + u
        per_task[(rn, d, tn)] = per_task.get((rn, d, tn), 0) + u
        # the amount booked so far may not exceed what the resource offers (to this task) on that day
        so_far = totals[(rn, d)] if c.balance else per_task[(rn, d, tn)]
        if not fle(so_far, cap):
            who = '' if c.balance else f' task {tn}'
            return V('C03', 'over-allocated', f'{rn!r} on {d.date()}{who}: {so_far} booked, capacity {cap}', c)
    # report views agree with rows
    rep = res.resource_usage
    for (rn, d), s in totals.items():
        got = rep.reserved(c.res_by_name[rn], d)
        if not feq(got, s):
            return V('C03', 'report-disagrees', f'reserved({rn!r},{d.date()})={got}, rows sum {s}', c)
    if rows:
        rn0 = rows[0][0]
        flt = rep.rows(lambda r: r.resource.name == rn0)
        exp = [x for x in rows if x[0] == rn0]
        got = [(r.resource.name, core.plain(r.date), c.w.name_of_id.get(r.task.id), r.units) for r in flt]
        if got != exp:
            return V('C03', 'report-disagrees', f'rows(filter resource={rn0!r}) gave {len(got)} rows, expected {len(exp)}', c)
    # resources present
    supplied = set(c.p.get('resources', []))
    for n in st.order_listed:
        rn = c.kw(n).get('resource')
        r = c.res_by_name.get(rn)
        if r is None:
            return V('C03', 'resource-missing', f'resource {rn!r} named by {n} is not in Schedule.resources', c)
        if rn not in supplied:
            base = DT(2024, 1, 1)  # a Monday
            week = [r.get_available_units(base + _dt.timedelta(days=i), None) for i in range(7)]
            if week != [8, 8, 8, 8, 8, 0, 0] or not isinstance(r, c.w.pj.Resource):
                return V('C03', 'default-resource', f'default resource {rn!r} offers {week} Mon..Sun', c)
    # exactly-once between scheduler and peer: the peer's own reserve log equals the report rows
    log = [(a, D(b), c.w.name_of_id.get(t), u) for a, b, t, u, _ in c.out['reserve_log']]
    if log != [(a, b, t, u) for a, b, t, u in rows]:
        return V('C03', 'peer-log-mismatch', f'peer saw {len(log)} reservations, report has {len(rows)} rows (or order/amount differs)', c)
    return None


# --------------------------------------------------------------------------- C04

def check_c04(c):
    st = c.st
    if c.dir == 'fwd':
        # the simulator saw every reservation arrive at the peer together with the clock reads that preceded it:
        # "never on a day before the current day" is judged against the latest clock value the scheduler had read
        for (rn, dd, tid, u, nreads) in c.out['reserve_log']:
            if nreads > 0 and nreads <= len(c.reads):
                seen = c.reads[nreads - 1]
                if D(dd).date() < seen.date():
                    return V('C04', 'row-before-today', f'{c.w.name_of_id.get(tid)}: work reserved on {D(dd).date()} when the clock already read {seen}', c)
    for n in st.order_listed:
        kw = c.kw(n)
        t = c.T(n)
        rows = c.rows_by_task.get(n, [])
        leaf = st.is_leaf(n)
        if not leaf or kw.get('milestone') or kw.get('end'):
            if rows:
                kind = 'summary' if not leaf else ('milestone' if kw.get('milestone') else 'completed task')
                return V('C04', 'reserves-but-should-not', f'{kind} {n} has {len(rows)} usage rows', c)
            if leaf and not kw.get('milestone') and c.dir == 'fwd':
                for k in ('start', 'end'):
                    if kw.get(k) and t[k] != D(kw[k]):
                        return V('C04', 'fixed-date-changed', f'{n}.{k} fixed at {kw[k]} returned as {t[k]}', c)
            continue
        if c.dir == 'fwd' and kw.get('start') and t['start'] != D(kw['start']):
            return V('C04', 'fixed-date-changed', f'{n}.start fixed at {kw["start"]} returned as {t["start"]}', c)
        total = sum(u for _, _, _, u in rows)
        want = c.remaining(n)
        if not feq(total, want):
            return V('C04', 'work-not-conserved', f'{n}: {total} units reserved, remaining work {want}', c)
        dates = [d for _, _, d, _ in rows]
        if len(set(dates)) != len(dates):
            return V('C04', 'twice-a-day', f'{n} has two rows on one day', c)
        # remaining work of float-noise size (0.1 + 0.2 - 0.3) moves a date by less than the microsecond
        # resolution of datetime: the reservation is still judged, the date agreement is not
        if 0 < want < 1e-9:
            continue
        for d in dates:
            if d.date() < t['start'].date() or not (d < t['end']):
                return V('C04', 'row-outside-dates', f'{n}: row on {d.date()} outside [{t["start"]}, {t["end"]})', c)
            if c.dir == 'fwd' and c.r_min is not None and d.date() < c.r_min.date():
                return V('C04', 'row-before-today', f'{n}: row on {d.date()}, clock {c.r_min}', c)
        if not dates:
            continue
        first, last = min(dates), max(dates)
        if c.dir == 'fwd':
            stable = c.same_day or (c.r_max is not None and c.r_max <= c.proj)
            if stable:
                if not kw.get('start') and t['start'].date() != first.date():
                    return V('C04', 'start-not-on-first-day', f'{n}: start {t["start"]}, first reserved day {first.date()}', c)
                if not (last < t['end'] <= last + H24 + MS):
                    return V('C04', 'end-not-in-last-day', f'{n}: end {t["end"]}, last reserved day {last.date()}', c)
        elif not kw.get('start'):
            if not (first - MS <= t['start'] < first + H24):
                return V('C04', 'start-not-in-first-day', f'{n}: start {t["start"]}, first reserved day {first.date()}', c)
    return None


# --------------------------------------------------------------------------- C07

def check_c07(c):
    st = c.st
    for n in st.order_listed:
        t = c.T(n)
        if t['start'] is None or t['end'] is None:
            if not st.is_leaf(n) and any(c.T(x)['start'] is not None for x in st.children[n]):
                return V('C07', 'summary-start', f'{n}: summary has start {t["start"]} / end {t["end"]} although its children have dates', c)
            continue  # no dates at all: C06 matter
        # a leaf with a user-fixed end but no start (and, through the roll-up, its summaries) is outside the statement
        fixed_end_only = any(c.kw(x).get('end') and not c.kw(x).get('start')
                             for x in ([n] if st.is_leaf(n) else [l for l in st.leaves(n)]))
        if t['start'] > t['end'] and not fixed_end_only:
            return V('C07', 'start-after-end', f'{n}: start {t["start"]} > end {t["end"]}', c)
        if not st.is_leaf(n):
            ch = [c.T(x) for x in st.children[n]]
            if any(x['start'] is None or x['end'] is None for x in ch):
                continue
            if t['start'] != min(x['start'] for x in ch):
                return V('C07', 'summary-start', f'{n}: start {t["start"]}, earliest child start {min(x["start"] for x in ch)}', c)
            if t['end'] != max(x['end'] for x in ch):
                return V('C07', 'summary-end', f'{n}: end {t["end"]}, latest child end {max(x["end"] for x in ch)}', c)
            if any(x['estimate'] is None or x['spent'] is None for x in ch) or t['estimate'] is None or t['spent'] is None:
                return V('C07', 'summary-work', f'{n}: estimate/spent missing', c)
            if not feq(t['estimate'], sum(x['estimate'] for x in ch)):
                return V('C07', 'summary-work', f'{n}: estimate {t["estimate"]}, children sum {sum(x["estimate"] for x in ch)}', c)
            if not feq(t['spent'], sum(x['spent'] for x in ch)):
                return V('C07', 'summary-work', f'{n}: spent {t["spent"]}, children sum {sum(x["spent"] for x in ch)}', c)
    all_t = [c.T(n) for n in st.order_listed if c.T(n)['start'] is not None and c.T(n)['end'] is not None]
    if all_t:
        ws, we = D(c.view['wbs_start']), D(c.view['wbs_end'])
        if ws != min(x['start'] for x in all_t) or we != max(x['end'] for x in all_t):
            return V('C07', 'wbs-span', f'WBS.start/end {ws}..{we}, tasks span {min(x["start"] for x in all_t)}..{max(x["end"] for x in all_t)}', c)
    return None


# --------------------------------------------------------------------------- C08

def check_c08(c, quarantine=()):
    if c.dir != 'fwd':
        return None
    st = c.st
    if c.balance:
        for n in st.order_listed:
            kw = c.kw(n)
            if not st.is_leaf(n) or kw.get('start') or kw.get('milestone') or kw.get('end'):
                continue
            t = c.T(n)
            rn = kw.get('resource')
            limited = c.limited(rn, n)   # "fully booked" is not defined for a task the resource offers its own amount to
            rows = c.rows_by_task.get(n, [])
            rel = [c.proj]
            if c.r_max is not None:
                rel.append(c.r_max)
            if kw.get('min_start'):
                rel.append(D(kw['min_start']))
            rel += [c.end_of(q) for q in st.prereq_leaves(n) if c.end_of(q) is not None]
            release = max(rel)
            last = max(d for _, _, d, _ in rows) if rows else day(t['start'])
            d = day(release)
            steps = 0
            while d < last and steps < 4000 and not limited:
                cap = c.cap(rn, d) or 0
                if cap > 0 and not fle(cap, c.booked(rn, d)):
                    return V('C08', 'idle-day', f'{n} ({rn!r}) released {release}, last work day {last.date()}, but {d.date()} has {c.booked(rn, d)} of {cap} booked', c)
                d += _dt.timedelta(days=1)
                steps += 1
            # exact encodings
            exact = c.r_max is None or c.r_max <= c.proj
            if exact and 'F17' in quarantine and c.proj != day(c.proj) and c.r_max is not None and c.r_max.date() == c.proj.date():
                exact = False
            if exact and rows and all((c.cap_for(rn, d, n) or 0) > 0 for _, _, d, _ in rows):
                first_i, _, first_d, _ = rows[0]
                cap0 = c.cap_for(rn, first_d, n)
                before = c.booked(rn, first_d, upto_index=first_i - 1) if first_i > 0 else 0
                exp = first_d + H24 * (before / cap0)
                if not deq(t['start'], exp):
                    return V('C08', 'start-encoding', f'{n}: start {t["start"]}, expected {exp} ({before} of {cap0} booked before on {first_d.date()})', c)
                last_i, _, last_d, _ = rows[-1]
                capl = c.cap_for(rn, last_d, n)
                thru = c.booked(rn, last_d, upto_index=last_i)
                exp = last_d + H24 * (thru / capl)
                if not deq(t['end'], exp):
                    return V('C08', 'end-encoding', f'{n}: end {t["end"]}, expected {exp} ({thru} of {capl} booked through on {last_d.date()})', c, f17_shape(c))
        # capacity handed out in WBS order among dependency-free leaves
        free = [n for n in st.wbs_order() if st.is_leaf(n) and not st.in_dependency(n) and c.rows_by_task.get(n)]
        for a, b in zip(free, free[1:]):
            if max(i for i, _, _, _ in c.rows_by_task[a]) > min(i for i, _, _, _ in c.rows_by_task[b]):
                return V('C08', 'wbs-order', f'rows of {b} precede rows of {a}, which comes first in WBS order', c)
    return None


# --------------------------------------------------------------------------- C09

def check_c09(c):
    if c.dir != 'bwd':
        return None
    st = c.st
    for n in st.order_listed:
        t = c.T(n)
        if t['end'] > c.proj:
            return V('C09', 'after-deadline', f'{n} ends {t["end"]}, requested end {c.proj}', c)
    for n in st.order_listed:
        if not st.is_leaf(n):
            continue
        for q in st.prereq_leaves(n):
            if q in st.ext:
                continue
            if c.end_of(q) > c.start_of(n):
                return V('C09', 'dependency-order', f'{q} ends {c.end_of(q)} after its successor {n} starts {c.start_of(n)}', c)
    if not c.balance:
        return None
    for n in st.order_listed:
        kw = c.kw(n)
        if not st.is_leaf(n) or kw.get('milestone'):
            continue
        t = c.T(n)
        rn = kw.get('resource')
        if c.limited(rn, n):
            continue
        rows = c.rows_by_task.get(n, [])
        d_end = day(t['end'] - US)
        sl = st.succ_leaves(n)
        due = min([c.start_of(s) for s in sl] + [c.proj])
        d = d_end + _dt.timedelta(days=1)
        steps = 0
        while d < day(due) and steps < 4000:
            cap = c.cap(rn, d) or 0
            if cap > 0 and not fle(cap, c.booked(rn, d)):
                return V('C09', 'not-late-packed', f'{n} ({rn!r}) ends {t["end"]}, due {due}, but {d.date()} has {c.booked(rn, d)} of {cap} booked', c)
            d += _dt.timedelta(days=1)
            steps += 1
        if rows and all((c.cap(rn, dd) or 0) > 0 for _, _, dd, _ in rows):
            dates = [dd for _, _, dd, _ in rows]
            first, last = min(dates), max(dates)
            d = first + _dt.timedelta(days=1)
            while d < last:
                cap = c.cap(rn, d) or 0
                if cap > 0 and not fle(cap, c.booked(rn, d)):
                    return V('C09', 'gap-in-work', f'{n}: {d.date()} between work days {first.date()}..{last.date()} has {c.booked(rn, d)} of {cap} booked', c)
                d += _dt.timedelta(days=1)
            fi = [i for i, _, dd, _ in rows if dd == first][0]
            thru = c.booked(rn, first, upto_index=fi)
            cap = c.cap(rn, first)
            exp = first + H24 - H24 * (thru / cap)
            if not deq(t['start'], exp):
                return V('C09', 'start-encoding', f'{n}: start {t["start"]}, expected {exp} ({thru} of {cap} booked through on {first.date()})', c)
            i0 = min(i for i, _, _, _ in rows)
            capd = c.cap(rn, d_end)
            if capd and capd > 0:
                before = c.booked(rn, d_end, upto_index=i0 - 1) if i0 > 0 else 0
                exp = d_end + H24 - H24 * (before / capd)
                if not deq(t['end'], exp):
                    return V('C09', 'end-encoding', f'{n}: end {t["end"]}, expected {exp} ({before} of {capd} booked before on {d_end.date()})', c)
    return None


# --------------------------------------------------------------------------- C06 (structure of the result)

def check_c06_result(c, pre):
    w = c.w
    res = c.out['result']
    sched = res.schedule
    if sched is w.wbs:
        return V('C06', 'result-not-separate', 'calc returned the input WBS object', c)
    input_objs = {id(o) for o in w.tasks.values()}
    ext_objs = {id(o): n for n, o in w.ext.items()}
    names = {}
    seen = []
    for t in sched.tasks:
        if id(t) in input_objs:
            return V('C06', 'result-not-separate', f'task {t.id} of the result is an input task object', c)
        n = w.name_of_id.get(t.id)
        if n is None or n in seen:
            return V('C06', 'result-structure', f'unexpected or repeated id {t.id} in result', c)
        seen.append(n)
        names[id(t)] = n
    if seen != pre['order']:
        return V('C06', 'result-structure', f'result order {seen}, input order {pre["order"]}', c)

    def nm(o):
        if o is None:
            return None
        return names.get(id(o)) or ext_objs.get(id(o)) or f'?{getattr(o, "id", o)}'
    if [nm(t) for t in sched.roots] != pre['roots']:
        return V('C06', 'result-structure', f'result roots {[nm(t) for t in sched.roots]}, input {pre["roots"]}', c)
    for t in sched.tasks:
        n = names[id(t)]
        p = pre['tasks'][n]
        if nm(t.parent) != p['parent'] or [nm(x) for x in t.children] != p['children']:
            return V('C06', 'result-structure', f'{n}: hierarchy differs from input', c)
        if sorted(nm(x) for x in t.predecessors) != sorted(p['preds']) or sorted(nm(x) for x in t.successors) != sorted(p['succs']):
            return V('C06', 'result-links', f'{n}: links {[nm(x) for x in t.predecessors]} / {[nm(x) for x in t.successors]}, input {p["preds"]} / {p["succs"]}', c)
        if t.start is None or t.end is None:
            return V('C06', 'missing-dates', f'{n}: start {t.start}, end {t.end}', c)
        if t.wbs is not sched:
            return V('C06', 'result-structure', f'{n} does not report the result WBS as owner', c)
        from .sworld import fields
        f = fields(t)
        for k, v in p['fields'].items():
            if k in ('start', 'end', 'estimate', 'spent'):
                continue
            if f.get(k) != v:
                return V('C06', 'result-attributes', f'{n}.{k}: {f.get(k)!r}, input {v!r}', c)
    return None
