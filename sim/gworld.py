"""Graph machine, part 1: the world (real pjplan objects behind symbolic names), the
operation executor and the snapshot taken through public getters only."""
from . import core


class IterFault(Exception):
    """Raised by a simulator-supplied iterator / callback (fault kinds arg.iter_fail, cb.fail)."""


def _failing_iter(items, fail_at):
    for i, x in enumerate(items):
        if i == fail_at:
            raise IterFault(f'iterator failed at element {i}')
        yield x
    if fail_at >= len(items):
        raise IterFault('iterator failed at end')


def _gen(items):
    for x in items:
        yield x


class World:
    def __init__(self, universe):
        pj = core.load_pjplan()
        self.pj = pj
        self.tasks = {}     # name -> Task
        self.wbs = {}       # name -> WBS
        self.names = {}     # id(obj) -> name (objects are kept alive by the dicts above)
        self.handles = {}   # hname -> dict(obj, on, what, members, ver)
        self.pairs = []     # clone pairs: dict(src, copy, map copy_name -> src_name)
        self.unknown = 0
        self.list_ver = {}  # owner name/what -> mutation counter (for the stale-handle probe)
        self.step = 0
        for t in universe['tasks']:
            kw = dict(t.get('kw', {}))
            for k in ('start', 'end', 'min_start'):
                if kw.get(k):
                    kw[k] = core._REAL_DATETIME.fromisoformat(kw[k])
            self.add_task(t['name'], pj.Task(t['id'], **kw))
        for w in universe['wbs']:
            obj = pj.WBS()
            # public attributes set on the WBS object itself (WBS(**kw) would put them on the hidden root task)
            for k, v in w.get('kw', {}).items():
                setattr(obj, k, v)
            self.add_wbs(w['name'], obj)

    # ---- naming
    def add_task(self, name, obj):
        self.tasks[name] = obj
        self.names[id(obj)] = name

    def add_wbs(self, name, obj):
        self.wbs[name] = obj
        self.names[id(obj)] = name

    def nm(self, obj):
        if obj is None:
            return None
        n = self.names.get(id(obj))
        if n is None:
            # an object the simulator did not create or register (half-built task of a
            # failed constructor, clone made by WBS(tasks), ...): name it deterministically
            Task, WBS = self.pj.Task, self.pj.WBS
            self.unknown += 1
            if isinstance(obj, Task):
                n = f'u{self.unknown}'
                self.add_task(n, obj)
            elif isinstance(obj, WBS):
                n = f'uw{self.unknown}'
                self.add_wbs(n, obj)
            else:
                n = f'?{type(obj).__name__}'
        return n

    def T(self, name):
        return self.tasks.get(name) if name is not None else None

    # ---- arguments
    def arg(self, spec):
        """Build a python argument from a JSON arg spec.  Unknown names are dropped (keeps
        shrunk traces executable)."""
        if spec is None:
            return None
        k = spec['k']
        items = [self.tasks[n] if n is not None else None for n in spec.get('items', [])
                 if n is None or n in self.tasks]
        if k == 'list':
            return list(items)
        if k == 'tuple':
            return tuple(items)
        if k == 'gen':
            return _gen(items)
        if k == 'iter_fail':
            return _failing_iter(items, spec.get('fail_at', 0))
        if k == 'single':
            return items[0] if items else None
        if k == 'none':
            return None
        if k == 'int':
            return 7
        if k == 'str':
            return 'ab'
        if k == 'obj':
            return object()
        raise core.HarnessError(f'bad arg spec {spec}')

    def flt(self, spec):
        """filter spec -> (key, kwargs) for __call__/remove_all"""
        if spec is None:
            return None, {}
        if spec['k'] == 'ids':
            return None, {'id_in_': list(spec['ids'])}
        if spec['k'] == 'pred':
            ids = set(spec['ids'])
            fail_at = spec.get('fail_at')
            state = {'n': 0}

            def key(t):
                if fail_at is not None and state['n'] == fail_at:
                    state['n'] += 1
                    raise IterFault('predicate failed')
                state['n'] += 1
                return t.id in ids
            return key, {}
        raise core.HarnessError(f'bad filter spec {spec}')

    def owner_obj(self, on):
        if on in self.tasks:
            return self.tasks[on]
        if on in self.wbs:
            return self.wbs[on]
        return None

    def get_list(self, on, what):
        o = self.owner_obj(on)
        if o is None:
            return None
        if what in ('children', 'roots'):
            return o.roots if on in self.wbs else o.children
        if what == 'predecessors':
            return o.predecessors if on in self.tasks else None
        if what == 'successors':
            return o.successors if on in self.tasks else None
        if what == 'tasks':
            return o.tasks if on in self.wbs else o.all_children
        if what == 'all_children':
            return o.all_children if on in self.tasks else o.tasks
        if what == 'all_parents':
            return o.all_parents if on in self.tasks else None
        raise core.HarnessError(f'bad list kind {what}')

    def via(self, v):
        """resolve a list facade: stored handle or fresh"""
        if v.get('h'):
            h = self.handles.get(v['h'])
            return h['obj'] if h else None
        return self.get_list(v['on'], v['what'])

    def query(self, q):
        if q.get('h'):
            h = self.handles.get(q['h'])
            return h['obj'] if h else None
        lst = self.get_list(q['on'], q['what'])
        if lst is None:
            return None
        if q.get('ids') is not None:
            return lst(id_in_=list(q['ids']))
        return lst

    # ---- executor
    def execute(self, op):
        """Run one operation against the real code.
        Returns ('skip',) if the op cannot be issued in this world (missing names),
        ('ok', value-summary) or ('exc', type name, message)."""
        fn = getattr(self, 'op_' + op['op'], None)
        if fn is None:
            raise core.HarnessError(f'unknown op {op}')
        try:
            r = fn(op)
        except core.HarnessError:
            raise
        except _Skip:
            return ('skip',)
        except RecursionError as e:
            return ('exc', 'RecursionError', str(e)[:80])
        except Exception as e:  # noqa
            return ('exc', type(e).__name__, str(e)[:120])
        return ('ok', r)

    def need(self, x):
        if x is None:
            raise _Skip()
        return x

    def op_set_parent(self, op):
        t = self.need(self.T(op['t']))
        p = None
        if op['p'] is not None:
            p = self.need(self.T(op['p']))
        t.parent = p

    def op_set_children(self, op):
        o = self.need(self.owner_obj(op['on']))
        a = self.arg(op['arg'])
        if op['on'] in self.wbs:
            o.roots = a
        else:
            o.children = a

    def op_iadd_children(self, op):
        o = self.need(self.owner_obj(op['on']))
        a = self.arg(op['arg'])
        if op['on'] in self.wbs:
            o.roots += a
        else:
            o.children += a

    def op_floordiv(self, op):
        o = self.need(self.owner_obj(op['on']))
        a = self.arg(op['arg'])
        r = o // a
        return 'same' if r is a else 'other'

    def op_l_append(self, op):
        lst = self.need(self.via(op['via']))
        t = self.T(op['t'])
        if op['t'] is not None:
            self.need(t)
        lst.append(t)

    def op_l_insert(self, op):
        lst = self.need(self.via(op['via']))
        t = self.T(op['t'])
        if op['t'] is not None:
            self.need(t)
        lst.insert(op['i'], t)

    def op_l_remove(self, op):
        lst = self.need(self.via(op['via']))
        t = self.T(op['t'])
        if op['t'] is not None:
            self.need(t)
        return bool(lst.remove(t))

    def op_l_move(self, op):
        lst = self.need(self.via(op['via']))
        a = self.arg(op['arg'])
        b = self.T(op.get('before'))
        af = self.T(op.get('after'))
        if op.get('before') is not None:
            self.need(b)
        if op.get('after') is not None:
            self.need(af)
        lst.move(a, before=b, after=af)

    def op_l_sort(self, op):
        lst = self.need(self.via(op['via']))
        key = op['key']
        lst.sort(key, reverse=bool(op.get('reverse')))

    def op_l_reorder(self, op):
        lst = self.need(self.via(op['via']))
        lst.reorder(list(op['ids']))

    def op_l_remove_all(self, op):
        lst = self.need(self.via(op['via']))
        key, kw = self.flt(op['flt'])
        r = lst.remove_all(key, **kw)
        return [self.nm(t) for t in r]

    def op_set_preds(self, op):
        t = self.need(self.T(op['t']))
        t.predecessors = self.arg(op['arg'])

    def op_set_succs(self, op):
        t = self.need(self.T(op['t']))
        t.successors = self.arg(op['arg'])

    def op_iadd_preds(self, op):
        t = self.need(self.T(op['t']))
        t.predecessors += self.arg(op['arg'])

    def op_iadd_succs(self, op):
        t = self.need(self.T(op['t']))
        t.successors += self.arg(op['arg'])

    def op_lshift(self, op):
        t = self.need(self.T(op['t']))
        a = self.arg(op['arg'])
        r = t << a
        return 'same' if r is a else 'other'

    def op_rshift(self, op):
        t = self.need(self.T(op['t']))
        a = self.arg(op['arg'])
        r = t >> a
        return 'same' if r is a else 'other'

    def op_q_lshift(self, op):
        q = self.need(self.query(op['q']))
        q << self.arg(op['arg'])

    def op_q_rshift(self, op):
        q = self.need(self.query(op['q']))
        q >> self.arg(op['arg'])

    def op_q_setattr(self, op):
        q = self.need(self.query(op['q']))
        attr = op['attr']
        if attr == 'parent':
            v = self.T(op['value'])
            if op['value'] is not None:
                self.need(v)
        elif attr in ('children', 'predecessors', 'successors'):
            v = self.arg(op['value'])
        else:
            v = op['value']
        setattr(q, attr, v)

    def op_w_remove(self, op):
        w = self.need(self.wbs.get(op['w']))
        if op['t'] is None:
            return bool(w.remove(None))
        t = self.need(self.T(op['t']))
        return bool(w.remove(t))

    def op_w_remove_all(self, op):
        w = self.need(self.wbs.get(op['w']))
        key, kw = self.flt(op['flt'])
        r = w.remove_all(key, **kw)
        return [self.nm(t) for t in r]

    def op_new_task(self, op):
        if op['as'] in self.tasks:
            raise _Skip()
        kw = {}
        src = op.get('kw', {})
        if src.get('parent') is not None:
            kw['parent'] = self.need(self.T(src['parent']))
        for k in ('children', 'predecessors', 'successors'):
            if src.get(k) is not None:
                kw[k] = self.arg(src[k])
        for k, v in src.items():
            if k not in ('parent', 'children', 'predecessors', 'successors'):
                kw[k] = v
        t = self.pj.Task(op['id'], **kw)
        self.add_task(op['as'], t)

    def op_new_wbs(self, op):
        if op['as'] in self.wbs:
            raise _Skip()
        a = self.arg(op['arg'])
        w = self.pj.WBS(a, **op.get('kw', {}))
        self.add_wbs(op['as'], w)
        # WBS(tasks) clones the given tasks flat; register them by position
        src = [n for n in (op['arg'] or {}).get('items', []) if n in self.tasks] if op['arg'] else []
        roots = list(w.roots)
        for i, r in enumerate(roots):
            if id(r) not in self.names:
                base = src[i] if i < len(src) and len(src) == len(roots) else f'r{i}'
                self.add_task(f"{op['as']}:{base}", r)

    def _register_copy(self, op, src_w, copy, src_roots):
        """name the tasks of a clone/subtree result by tree position"""
        self.add_wbs(op['as'], copy)
        mapping = {}

        def walk(s, c):
            cname = f"{op['as']}:{self.nm(s)}"
            if id(c) not in self.names:
                self.add_task(cname, c)
            mapping[self.nm(c)] = self.nm(s)
            sc, cc = list(s.children), list(c.children)
            for a, b in zip(sc, cc):
                walk(a, b)
        for a, b in zip(src_roots, list(copy.roots)):
            walk(a, b)
        self.pairs.append({'src': op['w'], 'copy': op['as'], 'map': mapping})

    def op_clone(self, op):
        if op['as'] in self.wbs:
            raise _Skip()
        w = self.need(self.wbs.get(op['w']))
        src_roots = list(w.roots)
        c = w.clone()
        self._register_copy(op, w, c, src_roots)

    def op_subtree(self, op):
        if op['as'] in self.wbs:
            raise _Skip()
        w = self.need(self.wbs.get(op['w']))
        a = self.arg(op['arg'])
        if isinstance(a, (list, tuple)):
            src_roots = list(a)
        elif isinstance(a, self.pj.Task):
            src_roots = [a]
        else:
            src_roots = [self.tasks[n] for n in op['arg'].get('items', []) if n in self.tasks]
        c = w.subtree(a)
        self._register_copy(op, w, c, src_roots)

    def op_w_setattr(self, op):
        w = self.need(self.wbs.get(op['w']))
        setattr(w, op['attr'], op['value'])

    def op_acquire(self, op):
        lst = self.need(self.get_list(op['on'], op['what']))
        if op.get('ids') is not None:
            lst = lst(id_in_=list(op['ids']))
        self.handles[op['h']] = {
            'obj': lst, 'on': op['on'], 'what': op['what'],
            'members': [self.nm(t) for t in lst],
            'ver': self.list_ver.get((op['on'], op['what']), 0),
        }

    def op_observe(self, op):
        what = op['what']
        if what == 'getitem':
            w = self.need(self.wbs.get(op['w']))
            return self.nm(w[op['id']])
        if what == 'critical_path':
            w = self.need(self.wbs.get(op['w']))
            return [self.nm(t) for t in w.critical_path()]
        if what == 'tasks':
            w = self.need(self.wbs.get(op['w']))
            return [self.nm(t) for t in w.tasks]
        if what == 'call':
            lst = self.need(self.query(op['q']))
            return [self.nm(t) for t in lst]
        if what == 'str':
            o = self.need(self.owner_obj(op['on']))
            return len(str(o)) > 0
        if what == 'all':
            t = self.need(self.T(op['t']))
            return [[self.nm(x) for x in t.all_predecessors], [self.nm(x) for x in t.all_successors]]
        raise core.HarnessError(f'bad observe {op}')


class _Skip(Exception):
    pass


# --------------------------------------------------------------------------- snapshot

def _fields(t):
    d = {}
    for k, v in t.to_dict().items():
        if k == 'id':
            continue
        d[k] = core.iso(v) if isinstance(v, core._REAL_DATETIME) else v
    d['estimate'] = t.estimate
    d['spent'] = t.spent
    return d


def snapshot(world):
    """Full observable state through public getters only.  Robust against corrupt graphs:
    a getter that raises is recorded as '!<ExcType>'."""
    nm = world.nm
    T = {}
    # two passes because nm() may register unknown objects while we iterate
    pending = list(world.tasks.keys())
    done = set()
    while pending:
        name = pending.pop(0)
        if name in done:
            continue
        done.add(name)
        t = world.tasks[name]
        d = {'id': t.id}
        try:
            d['parent'] = nm(t.parent)
        except Exception as e:  # noqa
            d['parent'] = '!' + type(e).__name__
        for key, getter in (('children', 'children'), ('preds', 'predecessors'), ('succs', 'successors')):
            try:
                d[key] = [nm(x) for x in getattr(t, getter)]
            except Exception as e:  # noqa
                d[key] = ['!' + type(e).__name__]
        try:
            d['wbs'] = nm(t.wbs)
        except Exception as e:  # noqa
            d['wbs'] = '!' + type(e).__name__
        d['fields'] = _fields(t)
        T[name] = d
        for n2 in world.tasks.keys():
            if n2 not in done and n2 not in pending:
                pending.append(n2)
    W = {}
    for name in list(world.wbs.keys()):
        w = world.wbs[name]
        d = {}
        try:
            d['roots'] = [nm(x) for x in w.roots]
        except Exception as e:  # noqa
            d['roots'] = ['!' + type(e).__name__]
        d['attrs'] = {k: v for k, v in w.__dict__.items() if not k.startswith('_')}
        W[name] = d
    if len(world.tasks) != len(T):
        return snapshot(world)
    return {'tasks': T, 'wbs': W}


def derived(world, S):
    """The derived getters (all_parents, all_children, WBS.tasks).  Only called when the
    direct relations are cycle-free, otherwise the getters recurse without bound."""
    nm = world.nm
    D = {'all_parents': {}, 'all_children': {}, 'wtasks': {}}
    for name in S['tasks']:
        t = world.tasks[name]
        try:
            D['all_parents'][name] = [nm(x) for x in t.all_parents]
        except RecursionError:
            D['all_parents'][name] = ['!RecursionError']
        try:
            D['all_children'][name] = [nm(x) for x in t.all_children]
        except RecursionError:
            D['all_children'][name] = ['!RecursionError']
    for name in S['wbs']:
        try:
            D['wtasks'][name] = [nm(x) for x in world.wbs[name].tasks]
        except RecursionError:
            D['wtasks'][name] = ['!RecursionError']
    return D
