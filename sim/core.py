"""Simulation core shared by all machines.

* loading the real pjplan code from the working tree (never a copy),
* seeded PRNG sub-streams,
* the simulated wall clock and the generic module patching that puts it behind
  every ``datetime.now()`` inside ``pjplan.*``,
* event log + digest (determinism self-test, replay verification),
* fork-pool runner with watchdog,
* delta-debugging shrinker,
* known-findings file, replay files, evidence writer.

Nothing in here draws from a PRNG or reads a real clock on a logging path.
"""
import datetime as _dt
import faulthandler
import hashlib
import json
import multiprocessing
import os
import random
import sys
import time
import traceback
from collections import Counter
from concurrent.futures import ProcessPoolExecutor

VERIF_DIR = os.path.dirname(os.path.dirname(os.path.abspath(__file__)))
PJPLAN_SRC = os.environ.get('PJPLAN_SRC', '/repo/src')

EXIT_OK, EXIT_VIOLATION, EXIT_HARNESS = 0, 1, 2

# tier of the running check: generators widen their bounds under 'thorough' (set by the driver, also inside workers)
TIER = 'quick'


class HarnessError(Exception):
    """Something is wrong with the simulator, not with pjplan."""


class BudgetExceeded(BaseException):
    """Raised at a seam when a deterministic step budget is exhausted.
    BaseException so that no ``except Exception`` inside pjplan can swallow it."""


# --------------------------------------------------------------------------- pjplan loading

_pj = None


def load_pjplan():
    """Import the real pjplan from the current working tree and patch the clock seam."""
    global _pj
    if _pj is not None:
        return _pj
    src = os.path.abspath(PJPLAN_SRC)
    if sys.path[0] != src:
        sys.path.insert(0, src)
    for k in list(sys.modules):
        if k == 'pjplan' or k.startswith('pjplan.'):
            raise HarnessError('pjplan imported before the simulator took control')
    import pjplan  # noqa
    if not os.path.abspath(pjplan.__file__).startswith(src + os.sep):
        raise HarnessError(f'pjplan loaded from {pjplan.__file__}, expected {src}')
    import pjplan.io.csv_io  # noqa
    import pjplan.viz.mermaid.gantt  # noqa
    import pjplan.viz.mermaid.network  # noqa
    import pjplan.viz.dhtmlx.gantt  # noqa
    n = patch_clock()
    if n < 3:
        raise HarnessError(f'clock seam reached only {n} modules')
    _pj = pjplan
    return pjplan


# --------------------------------------------------------------------------- PRNG streams

class Streams:
    """Independent named sub-streams of one integer seed.
    random.Random(str) seeds through SHA-512, independent of PYTHONHASHSEED."""

    def __init__(self, seed):
        self.seed = seed
        self._s = {}

    def __call__(self, name):
        r = self._s.get(name)
        if r is None:
            r = self._s[name] = random.Random(f'{self.seed}/{name}')
        return r


# --------------------------------------------------------------------------- clock

_REAL_DATETIME = _dt.datetime


class SimClock:
    """The only clock pjplan sees.  A policy spec (JSON) fully determines the value of
    the k-th read; every read is logged."""

    def __init__(self):
        self.spec = None
        self.reads = []  # values returned since last set()
        self.total_reads = 0
        self.listeners = []

    def set(self, spec):
        self.spec = spec
        self.reads = []

    def value_at(self, k):
        s = self.spec
        if s is None:
            raise HarnessError('clock read while no policy is installed')
        t0 = _REAL_DATETIME.fromisoformat(s['t'])
        kind = s['kind']
        if kind == 'frozen':
            return t0
        if kind == 'tick':
            return t0 + _dt.timedelta(microseconds=s['step_us'] * k)
        if kind == 'jump':
            v = t0 + _dt.timedelta(microseconds=s.get('step_us', 0) * k)
            if k >= s['at']:
                v += _dt.timedelta(seconds=s['delta_s'])
            return v
        if kind == 'back':
            v = t0 + _dt.timedelta(microseconds=s.get('step_us', 0) * k)
            if k >= s['at']:
                v -= _dt.timedelta(seconds=s['delta_s'])
            return v
        raise HarnessError(f'unknown clock policy {kind}')

    def read(self):
        v = self.value_at(len(self.reads))
        self.reads.append(v)
        self.total_reads += 1
        return v


CLOCK = SimClock()


class SimDateTime(_REAL_DATETIME):
    """datetime whose now() asks the simulated clock.  Bound into every pjplan module."""

    @classmethod
    def now(cls, tz=None):
        return CLOCK.read()

    @classmethod
    def utcnow(cls):
        return CLOCK.read()

    @classmethod
    def today(cls):
        return CLOCK.read()


def patch_clock():
    n = 0
    for name, mod in list(sys.modules.items()):
        if mod is None or not (name == 'pjplan' or name.startswith('pjplan.')):
            continue
        if getattr(mod, 'datetime', None) is _REAL_DATETIME:
            setattr(mod, 'datetime', SimDateTime)
            n += 1
        elif getattr(mod, 'datetime', None) is SimDateTime:
            n += 1
    return n


def iso(v):
    if v is None:
        return None
    return _REAL_DATETIME(v.year, v.month, v.day, v.hour, v.minute, v.second, v.microsecond).isoformat()


def plain(v):
    """datetime (or subclass) -> plain datetime"""
    if v is None:
        return None
    return _REAL_DATETIME(v.year, v.month, v.day, v.hour, v.minute, v.second, v.microsecond)


# --------------------------------------------------------------------------- event log

class EventLog:
    def __init__(self, keep=True):
        self.h = hashlib.sha256()
        self.n = 0
        self.keep = keep
        self.entries = []

    def add(self, *entry):
        s = json.dumps(entry, sort_keys=True, default=str, ensure_ascii=True)
        self.h.update(s.encode())
        self.h.update(b'\n')
        self.n += 1
        if self.keep:
            self.entries.append(entry)

    def digest(self):
        return self.h.hexdigest()[:24]


def hash64(obj):
    s = json.dumps(obj, sort_keys=True, default=str, ensure_ascii=True)
    return int.from_bytes(hashlib.blake2b(s.encode(), digest_size=8).digest(), 'big')


# --------------------------------------------------------------------------- violations

class Violation:
    """One oracle failure.  clause = which sentence of the property; sig = clause + the
    operation kind and argument-shape class that triggered it (used for known findings)."""

    def __init__(self, prop, clause, sig, detail, step=None):
        self.prop, self.clause, self.sig, self.detail, self.step = prop, clause, sig, detail, step

    def as_dict(self):
        return {'property': self.prop, 'clause': self.clause, 'sig': self.sig,
                'detail': self.detail, 'step': self.step}

    def __repr__(self):
        return f'Violation({self.prop} {self.sig}: {self.detail})'


# --------------------------------------------------------------------------- runner

def _chunk_worker(args):
    fn, payload, timeout_s = args
    faulthandler.enable()
    faulthandler.dump_traceback_later(timeout_s, exit=True)
    try:
        return ('ok', fn(payload))
    except BaseException:  # noqa
        return ('err', traceback.format_exc())
    finally:
        faulthandler.cancel_dump_traceback_later()


def run_chunks(fn, payloads, workers, timeout_s=900):
    """Run fn(payload) for every payload in forked workers; returns list of results in order.
    A dead worker, timeout or exception is a HarnessError, never a pass."""
    if workers <= 1 or len(payloads) <= 1:
        out = []
        for p in payloads:
            st, r = _chunk_worker((fn, p, timeout_s))
            if st != 'ok':
                raise HarnessError('worker failed:\n' + r)
            out.append(r)
        return out
    ctx = multiprocessing.get_context('fork')
    out = []
    try:
        with ProcessPoolExecutor(max_workers=workers, mp_context=ctx) as ex:
            for st, r in ex.map(_chunk_worker, [(fn, p, timeout_s) for p in payloads]):
                if st != 'ok':
                    raise HarnessError('worker failed:\n' + r)
                out.append(r)
    except HarnessError:
        raise
    except BaseException as e:  # BrokenProcessPool etc.
        raise HarnessError(f'worker pool broke: {type(e).__name__}: {e}')
    return out


class Agg:
    """Mergeable per-chunk statistics."""

    def __init__(self):
        self.runs = 0
        self.ops = 0
        self.counters = Counter()  # faults fired, probes, outcomes
        self.states = set()        # distinct state hashes seen after any step (capped per run)
        self.end_states = set()    # distinct non-trivial end-of-run states
        self.transitions = set()   # distinct (op, outcome, fault) kinds
        self.violations = []       # [(seed, violation dict)]
        self.samples = []
        self.sim_seconds = 0.0     # simulated clock span covered
        self.extra = {}

    def merge(self, o):
        self.runs += o.runs
        self.ops += o.ops
        self.counters.update(o.counters)
        self.states |= o.states
        self.end_states |= o.end_states
        self.transitions |= o.transitions
        self.violations += o.violations
        if len(self.samples) < 5:
            self.samples += o.samples[:5 - len(self.samples)]
        self.sim_seconds += o.sim_seconds
        for k, v in o.extra.items():
            self.extra[k] = self.extra.get(k, 0) + v
        return self


# --------------------------------------------------------------------------- shrinking

def ddmin(items, test, max_tests=4000):
    """Classic delta debugging over a list; test(list) -> True when the failure persists."""
    n = 2
    tests = 0
    items = list(items)
    while len(items) >= 2 and tests < max_tests:
        chunk = max(len(items) // n, 1)
        subsets = [items[i:i + chunk] for i in range(0, len(items), chunk)]
        reduced = False
        for i in range(len(subsets)):
            comp = [x for j, s in enumerate(subsets) if j != i for x in s]
            tests += 1
            if test(comp):
                items = comp
                n = max(n - 1, 2)
                reduced = True
                break
        if not reduced:
            if chunk == 1:
                break
            n = min(n * 2, len(items))
    if len(items) == 1 and tests < max_tests and test([]):
        items = []
    return items


# --------------------------------------------------------------------------- known findings

class KnownFindings:
    def __init__(self, path=None):
        self.path = path or os.path.join(VERIF_DIR, 'known_findings.txt')
        self.known = []  # dicts: property, sig, replay, text
        self.fixed = []
        if os.path.exists(self.path):
            for line in open(self.path, encoding='utf-8'):
                line = line.strip()
                if not line or line.startswith('#'):
                    continue
                if line.startswith('known:'):
                    parts = line[len('known:'):].split()
                    d = {'text': ''}
                    rest = []
                    for p in parts:
                        if not rest and '=' in p and p.split('=', 1)[0] in ('property', 'sig', 'replay'):
                            k, v = p.split('=', 1)
                            d[k] = v
                        else:
                            rest.append(p)
                    d['text'] = ' '.join(rest)
                    if 'property' not in d or 'sig' not in d:
                        raise HarnessError(f'bad known line: {line}')
                    self.known.append(d)
                elif line.startswith('fixed:'):
                    self.fixed.append(line)

    def for_prop(self, prop):
        return [k for k in self.known if k['property'] == prop]

    def match(self, prop, sig):
        for k in self.known:
            if k['property'] == prop and k['sig'] == sig:
                return k
        return None


# --------------------------------------------------------------------------- files

def write_json(path, obj):
    os.makedirs(os.path.dirname(path), exist_ok=True)
    tmp = path + '.tmp%d' % os.getpid()
    with open(tmp, 'w', encoding='utf-8') as f:
        json.dump(obj, f, indent=1, sort_keys=True, default=str, ensure_ascii=False)
        f.write('\n')
    os.replace(tmp, path)


def read_json(path):
    with open(path, encoding='utf-8') as f:
        return json.load(f)


def write_evidence(prop, tier, seed, coverage, wall_s, violations, assumptions):
    ev = {
        'property_id': prop,
        'tier': tier,
        'seed': int(seed),
        'level': 'exploration',
        'coverage': coverage,
        'assumptions': assumptions,
        'wall_s': round(wall_s, 3),
        'violations': int(violations),
    }
    write_json(os.path.join(os.environ.get('VERIF_EVIDENCE_DIR') or os.path.join(VERIF_DIR, 'evidence'), f'{prop}.json'), ev)
    return ev


def now_wall():
    """Real wall clock -- used ONLY for reporting throughput in evidence, never inside a run."""
    return time.time()
