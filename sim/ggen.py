"""Graph machine, part 3: seeded, state-aware generation of operations and faults.

Every choice comes from PRNG sub-streams of the run seed.  The generator looks at the
current snapshot (names only) to aim an operation at a legal target or at a specific
rejection class; what it emits is a plain JSON descriptor that can be re-executed without
the generator (replay, shrinking)."""
from . import gmodel as gm

FAULT_KINDS = ['rej.dup_id', 'rej.cross_wbs', 'rej.hier_cycle', 'rej.dep_cycle', 'rej.dep_ancestor',
               'rej.missing_anchor', 'rej.bad_index', 'rej.bad_value', 'arg.one_shot', 'arg.iter_fail',
               'arg.multi_late', 'cb.fail', 'handle.stale', 'reattach']

LEGAL_INTENTS = ['attach_root', 'attach_under', 'move_in_wbs', 'reorder', 'link', 'unlink', 'remove',
                 'reattach', 'copy', 'acquire', 'use_handle', 'bulk', 'create', 'observe']


def make_universe(rng):
    from . import core as _core
    n = rng.randint(5, 12) if _core.TIER != 'thorough' else rng.choice([5, 6, 7, 8, 9, 10, 11, 12, 14, 16])
    alpha = rng.choice([max(3, n // 2), n, n, 2 * n, 3 * n])
    # ids: mostly small ints; sometimes strings, sometimes ints and look-alike strings mixed (1 vs '1'), 0 and negatives
    style = rng.choice(['int', 'int', 'int', 'str', 'mixed', 'zero'])
    if style == 'int':
        idpool = list(range(1, alpha + 3))
    elif style == 'str':
        idpool = [chr(ord('a') + k) for k in range(alpha + 2)]
    elif style == 'mixed':
        idpool = [x for k in range(1, alpha + 2) for x in (k, str(k))]
    else:
        idpool = list(range(-1, alpha + 2))
    tasks = []
    for i in range(n):
        kw = {'name': rng.choice([f'N{i}', f'N{i}', f'N{i % 3}', 'same'])}
        if rng.random() < 0.6:
            kw['resource'] = rng.choice(['r1', 'r2', 'r3'])
        if rng.random() < 0.6:
            kw['estimate'] = rng.choice([0, 1, 2, 3, 5, 8, 0.5, 2.25])
        if rng.random() < 0.4:
            kw['spent'] = rng.choice([0, 1, 2, 0.5])
        if rng.random() < 0.2:
            kw['milestone'] = True
        if rng.random() < 0.3:
            kw['start'] = f'2024-0{rng.randint(1, 9)}-1{rng.randint(0, 9)}T00:00:00'
        if rng.random() < 0.2:
            kw['min_start'] = f'2024-0{rng.randint(1, 9)}-0{rng.randint(1, 9)}T00:00:00'
        if rng.random() < 0.5:
            kw['tag'] = rng.choice(['a', 'b', 'c'])
        if rng.random() < 0.3:
            kw['prio'] = rng.randint(0, 3)
        if rng.random() < 0.2:
            kw['note'] = None
        tasks.append({'name': f't{i}', 'id': idpool[rng.randrange(alpha)], 'kw': kw})
    wbs = []
    for i in range(rng.randint(1, 3)):
        kw = {}
        if rng.random() < 0.7:
            kw['title'] = f'W{i}'
        if rng.random() < 0.3:
            kw['owner'] = rng.choice(['ann', 'bob'])
        wbs.append({'name': f'w{i}', 'kw': kw})
    return {'tasks': tasks, 'wbs': wbs, 'alpha': alpha, 'idpool': idpool}


def make_config(rng):
    """swarm configuration: which intents / fault kinds are enabled in this run, and how strongly"""
    from . import core as _core
    cfg = {'legal': {}, 'fault': {}, 'n_ops': rng.choice([5, 8, 12, 20, 30, 40] + ([60] if _core.TIER == 'thorough' else [])),
           'fault_rate': rng.choice([0.0, 0.15, 0.3, 0.5, 0.7]),
           'build': rng.randint(3, 14)}
    for k in LEGAL_INTENTS:
        cfg['legal'][k] = rng.choice([0, 1, 1, 2, 4])
    if not any(cfg['legal'].values()):
        cfg['legal']['attach_under'] = 1
    for k in FAULT_KINDS:
        cfg['fault'][k] = rng.choice([0, 0, 1, 2])
    return cfg


class Gen:
    def __init__(self, streams, universe, cfg, quarantine=()):
        self.r = streams('ops')
        self.rf = streams('faults')
        self.u = universe
        self.cfg = cfg
        self.nh = 0
        self.nnew = 0
        self.ncopy = 0
        self.quarantine = set(quarantine)
        self.released = set()

    # ---- state helpers
    def setup(self, S, world):
        self.S, self.world = S, world
        self.T = S['tasks']
        self.names = sorted(self.T)
        self.wn = sorted(S['wbs'])
        self.members = {w: gm.dfs(S, S['wbs'][w]['roots']) for w in self.wn}
        self.detached_roots = [t for t in self.names if self.T[t]['parent'] is None and self.T[t]['wbs'] is None]
        self.detached_inner = [t for t in self.names if self.T[t]['parent'] is not None and self.T[t]['wbs'] is None]

    def anc(self, t):
        return gm.ancestors(self.S, t)[0]

    def desc(self, t):
        return gm.descendants(self.S, t)

    def tree_ids(self, t):
        """ids in the tree / WBS that contains t"""
        w = self.T[t]['wbs']
        if w in self.members:
            mem = self.members[w]
        else:
            mem = gm.dfs(self.S, [gm.tree_root(self.S, t)])
        return {self.T[m]['id']: m for m in mem}

    def sub_ids(self, t):
        return {self.T[m]['id'] for m in [t] + self.desc(t)}

    def can_adopt(self, t, owner):
        """would attaching t (with subtree) under owner (task or wbs name) be legal?"""
        T = self.T
        if owner in self.wn:
            if T[t]['wbs'] not in (None, owner):
                return False
            have = {T[m]['id'] for m in self.members[owner] if m not in [t] + self.desc(t)}
            anc = []
        else:
            if owner == t or owner in self.desc(t):
                return False
            ow = T[owner]['wbs']
            if T[t]['wbs'] is not None and T[t]['wbs'] != ow:
                return False
            tree = self.tree_ids(owner)
            have = {i for i, m in tree.items() if m not in [t] + self.desc(t)}
            anc = [owner] + self.anc(owner)
        if self.sub_ids(t) & have and not (T[t]['wbs'] is not None and T[t]['wbs'] == (owner if owner in self.wn else T[owner]['wbs'])):
            return False
        if T[t]['wbs'] is None and owner not in self.wn and T[owner]['wbs'] is None:
            # both detached: ids of the two trees must not clash (unless same tree)
            if gm.tree_root(self.S, t) != gm.tree_root(self.S, owner) and self.sub_ids(t) & set(self.tree_ids(owner)):
                return False
        for s in [t] + self.desc(t):
            for x in T[s]['preds'] + T[s]['succs']:
                if x in anc:
                    return False
        return True

    def can_link(self, t, p):
        """p as predecessor of t legal?"""
        if t == p or p in self.anc(t) or p in self.desc(t) or t in self.anc(p):
            return False
        # cycle: t reachable from p via preds
        seen, stack = set(), [p]
        while stack:
            x = stack.pop()
            if x == t:
                return False
            if x in seen:
                continue
            seen.add(x)
            stack.extend(self.T[x]['preds'])
        return True

    def arg(self, items, allow_single=True):
        r = self.r
        k = r.choice(['list', 'list', 'list', 'tuple'])
        if allow_single and len(items) == 1 and r.random() < 0.4:
            k = 'single'
        if self.cfg['fault'].get('arg.one_shot') and r.random() < 0.25:
            k = 'gen'
        return {'k': k, 'items': list(items)}

    def pick(self, xs):
        return self.r.choice(xs) if xs else None

    def via(self, on, what):
        return {'on': on, 'what': what}

    def list_owner(self):
        """a random owner of a non-empty children/roots list -> (owner, what, list)"""
        cands = [(w, 'roots', self.S['wbs'][w]['roots']) for w in self.wn if self.S['wbs'][w]['roots']]
        cands += [(t, 'children', self.T[t]['children']) for t in self.names if self.T[t]['children']]
        return self.pick(cands)

    # ---- legal intents
    def g_attach_root(self):
        t = self.pick(self.detached_roots)
        w = self.pick(self.wn)
        if t is None or w is None or not self.can_adopt(t, w):
            return None
        form = self.r.choice(['floordiv', 'append', 'iadd', 'set'])
        if form == 'floordiv':
            return {'op': 'floordiv', 'on': w, 'arg': self.arg([t])}
        if form == 'append':
            return {'op': 'l_append', 'via': self.via(w, 'roots'), 't': t}
        if form == 'iadd':
            return {'op': 'iadd_children', 'on': w, 'arg': self.arg([t])}
        return {'op': 'set_children', 'on': w, 'arg': self.arg(self.S['wbs'][w]['roots'] + [t], False)}

    def g_attach_under(self):
        for _ in range(6):
            p = self.pick(self.names)
            cands = self.detached_roots + (self.members.get(self.T[p]['wbs'], []) if self.r.random() < 0.3 else []) \
                + (self.detached_inner if self.r.random() < 0.4 else [])
            t = self.pick([c for c in cands if c != p])
            if t is None or not self.can_adopt(t, p):
                continue
            form = self.r.choice(['parent', 'append', 'iadd', 'floordiv', 'set', 'insert'])
            if form == 'parent':
                return {'op': 'set_parent', 't': t, 'p': p}
            if form == 'append':
                return {'op': 'l_append', 'via': self.via(p, 'children'), 't': t}
            if form == 'iadd':
                return {'op': 'iadd_children', 'on': p, 'arg': self.arg([t])}
            if form == 'floordiv':
                return {'op': 'floordiv', 'on': p, 'arg': self.arg([t])}
            if form == 'insert' and t not in self.T[p]['children'] and self.T[p]['children']:
                return {'op': 'l_insert', 'via': self.via(p, 'children'), 'i': self.r.randrange(len(self.T[p]['children'])), 't': t}
            cur = [c for c in self.T[p]['children'] if c != t]
            pos = self.r.randint(0, len(cur))
            return {'op': 'set_children', 'on': p, 'arg': self.arg(cur[:pos] + [t] + cur[pos:], False)}
        return None

    def g_move_in_wbs(self):
        w = self.pick([w for w in self.wn if len(self.members[w]) >= 2])
        if not w:
            return None
        # tasks that REPORT w as owner (equal to the members on a sound tree; on a corrupted one this also
        # reaches orphans that still claim the WBS)
        claimed = [t for t in self.names if self.T[t]['wbs'] == w]
        for _ in range(6):
            t = self.pick(claimed)
            tgt = self.pick(self.members[w] + [None])
            if tgt is None:
                return {'op': 'set_parent', 't': t, 'p': None}
            if tgt != t and self.can_adopt(t, tgt):
                if self.r.random() < 0.5:
                    return {'op': 'set_parent', 't': t, 'p': tgt}
                return {'op': 'l_append', 'via': self.via(tgt, 'children'), 't': t}
        return None

    def g_reorder(self):
        c = self.list_owner()
        if not c:
            return None
        on, what, lst = c
        form = self.r.choice(['move', 'move', 'sort', 'reorder', 'insert_member', 'move_multi', 'sort_partial', 'move_repeat'])
        if form == 'move' and len(lst) >= 2:
            t, a = self.r.sample(lst, 2)
            return {'op': 'l_move', 'via': self.via(on, what), 'arg': self.arg([t]),
                    self.r.choice(['before', 'after']): a}
        if form == 'move_multi' and len(lst) >= 3:
            k = self.r.randint(2, min(3, len(lst) - 1))
            sel = self.r.sample(lst, k + 1)
            return {'op': 'l_move', 'via': self.via(on, what), 'arg': self.arg(sel[:k], False),
                    self.r.choice(['before', 'after']): sel[k]}
        if form == 'sort':
            key = self.r.choice(['id', 'id', 'name', ['name', 'id'], 'milestone'])
            return {'op': 'l_sort', 'via': self.via(on, what), 'key': key, 'reverse': self.r.random() < 0.4}
        if form == 'move_repeat' and len(lst) >= 2:
            # the same child named twice in one move request (legal: "repeated elements")
            t, a = self.r.sample(lst, 2)
            items = [t, t] if len(lst) < 3 or self.r.random() < 0.5 else [t, self.pick([x for x in lst if x not in (t, a)]), t]
            return {'op': 'l_move', 'via': self.via(on, what), 'arg': {'k': self.r.choice(['list', 'tuple']), 'items': items},
                    self.r.choice(['before', 'after']): a}
        if form == 'sort_partial':
            # key whose values are comparable for some children only (None next to numbers / strings): the call
            # raises in the middle of the comparison phase
            key = self.r.choice(['estimate', 'spent', 'resource', 'start', 'min_start', ['estimate'], 'note', 'prio'])
            return {'op': 'l_sort', 'via': self.via(on, what), 'key': key, 'reverse': self.r.random() < 0.4}
        if form == 'reorder':
            k = self.r.randint(0, len(lst))
            ids = [self.T[x]['id'] for x in self.r.sample(lst, k)]
            return {'op': 'l_reorder', 'via': self.via(on, what), 'ids': ids}
        if form == 'insert_member' and len(lst) >= 2 and 'insert-member' not in self.quarantine:
            return {'op': 'l_insert', 'via': self.via(on, what), 'i': self.r.randrange(len(lst)), 't': self.pick(lst)}
        return None

    def g_link(self):
        for _ in range(8):
            t, p = self.pick(self.names), self.pick(self.names)
            if not self.can_link(t, p) or p in self.T[t]['preds']:
                continue
            form = self.r.choice(['set', 'append', 'lshift', 'rshift', 'iadd', 'set_s', 'append_s'])
            if form == 'set':
                return {'op': 'set_preds', 't': t, 'arg': self.arg(self.T[t]['preds'] + [p], False)}
            if form == 'append':
                return {'op': 'l_append', 'via': self.via(t, 'predecessors'), 't': p}
            if form == 'lshift':
                return {'op': 'lshift', 't': t, 'arg': self.arg([p])}
            if form == 'rshift':
                return {'op': 'rshift', 't': p, 'arg': self.arg([t])}
            if form == 'iadd':
                return {'op': 'iadd_preds', 't': t, 'arg': self.arg([p])}
            if form == 'set_s':
                return {'op': 'set_succs', 't': p, 'arg': self.arg(self.T[p]['succs'] + [t], False)}
            return {'op': 'l_append', 'via': self.via(p, 'successors'), 't': t}
        return None

    def g_unlink(self):
        linked = [t for t in self.names if self.T[t]['preds']]
        t = self.pick(linked)
        if not t:
            return None
        p = self.pick(self.T[t]['preds'])
        form = self.r.choice(['remove', 'remove_s', 'set', 'set_empty', 'remove_all', 'remove_absent'])
        if form == 'remove':
            return {'op': 'l_remove', 'via': self.via(t, 'predecessors'), 't': p}
        if form == 'remove_s':
            return {'op': 'l_remove', 'via': self.via(p, 'successors'), 't': t}
        if form == 'set':
            return {'op': 'set_preds', 't': t, 'arg': self.arg([x for x in self.T[t]['preds'] if x != p], False)}
        if form == 'set_empty':
            return {'op': self.r.choice(['set_preds', 'set_succs']), 't': self.r.choice([t, p]), 'arg': self.r.choice([{'k': 'none'}, {'k': 'list', 'items': []}])}
        if form == 'remove_all':
            return {'op': 'l_remove_all', 'via': self.via(t, 'predecessors'), 'flt': self.flt([self.T[p]['id']])}
        return {'op': 'l_remove', 'via': self.via(t, 'predecessors'), 't': self.pick(self.names)}

    def flt(self, ids):
        if self.r.random() < 0.5:
            return {'k': 'ids', 'ids': list(ids)}
        return {'k': 'pred', 'ids': list(ids)}

    def g_remove(self):
        c = self.list_owner()
        if not c:
            return None
        on, what, lst = c
        t = self.pick(lst)
        form = self.r.choice(['l_remove', 'w_remove', 'w_remove_all', 'l_remove_all', 'set_subset', 'set_empty', 'remove_absent'])
        w = self.T[t]['wbs']
        if form == 'l_remove':
            return {'op': 'l_remove', 'via': self.via(on, what), 't': t}
        if form == 'w_remove' and w:
            deep = self.pick(self.members[w])
            return {'op': 'w_remove', 'w': w, 't': deep}
        if form == 'w_remove_all' and w:
            ids = [self.T[x]['id'] for x in self.r.sample(self.members[w], min(len(self.members[w]), self.r.randint(1, 2)))]
            return {'op': 'w_remove_all', 'w': w, 'flt': self.flt(ids)}
        if form == 'l_remove_all':
            ids = [self.T[x]['id'] for x in self.r.sample(lst, self.r.randint(1, min(2, len(lst))))]
            return {'op': 'l_remove_all', 'via': self.via(on, what), 'flt': self.flt(ids)}
        if form == 'set_subset':
            keep = [x for x in lst if x != t]
            if self.r.random() < 0.3:
                self.r.shuffle(keep)
            return {'op': 'set_children', 'on': on, 'arg': self.arg(keep, False)}
        if form == 'set_empty':
            return {'op': 'set_children', 'on': on, 'arg': self.r.choice([{'k': 'none'}, {'k': 'list', 'items': []}, {'k': 'list', 'items': [None]}])}
        other = self.pick(self.names)
        if form == 'remove_absent' and w and other:
            return self.r.choice([{'op': 'w_remove', 'w': self.pick(self.wn), 't': other},
                                  {'op': 'l_remove', 'via': self.via(on, what), 't': other}])
        return None

    def g_reattach(self):
        rel = [t for t in sorted(self.released) if t in self.T and self.T[t]['parent'] is None]
        t = self.pick(rel)
        if not t:
            return None
        targets = [x for x in self.wn + self.names if x != t]
        self.r.shuffle(targets)
        for tgt in targets[:6]:
            if self.can_adopt(t, tgt):
                if tgt in self.wn:
                    return self.r.choice([{'op': 'floordiv', 'on': tgt, 'arg': self.arg([t])},
                                          {'op': 'l_append', 'via': self.via(tgt, 'roots'), 't': t}])
                return self.r.choice([{'op': 'set_parent', 't': t, 'p': tgt},
                                      {'op': 'l_append', 'via': self.via(tgt, 'children'), 't': t},
                                      {'op': 'iadd_children', 'on': tgt, 'arg': self.arg([t])}])
        return None

    def g_copy(self):
        if self.ncopy >= 2:
            return None
        w = self.pick([w for w in self.wn if self.members[w]])
        if not w:
            return None
        self.ncopy += 1
        name = f'c{self.ncopy}'
        if self.r.random() < 0.5:
            return {'op': 'clone', 'w': w, 'as': name}
        # non-empty antichain of members
        mem = list(self.members[w])
        self.r.shuffle(mem)
        sel = []
        for m in mem:
            if len(sel) >= 3:
                break
            if not any(m in self.desc(s) or s in self.desc(m) for s in sel):
                sel.append(m)
                if self.r.random() < 0.5:
                    break
        return {'op': 'subtree', 'w': w, 'arg': self.arg(sel), 'as': name}

    def g_acquire(self):
        if len(self.world.handles) >= 8:
            return None
        self.nh += 1
        h = f'h{self.nh}'
        r = self.r.random()
        if r < 0.6:
            c = self.list_owner()
            if c:
                return {'op': 'acquire', 'h': h, 'on': c[0], 'what': c[1]}
        if r < 0.8:
            t = self.pick(self.names)
            return {'op': 'acquire', 'h': h, 'on': t, 'what': self.r.choice(['predecessors', 'successors', 'children'])}
        w = self.pick(self.wn)
        if w and self.members[w]:
            ids = [self.T[x]['id'] for x in self.r.sample(self.members[w], min(2, len(self.members[w])))]
            return {'op': 'acquire', 'h': h, 'on': w, 'what': 'tasks', 'ids': ids}
        return None

    def g_use_handle(self):
        hs = sorted(self.world.handles)
        h = self.pick(hs)
        if not h:
            return None
        rec = self.world.handles[h]
        on, what = rec['on'], rec['what']
        via = {'h': h}
        if what in ('children', 'roots'):
            cur = self.S['wbs'][on]['roots'] if on in self.wn else self.T[on]['children']
            form = self.r.choice(['append', 'remove', 'move', 'sort', 'reorder', 'insert', 'remove_all', 'departed', 'departed'])
            departed = [m for m in rec['members'] if m in self.T and m not in cur]
            if form == 'departed' and departed and cur:
                x = self.pick(departed)
                k = self.r.choice(['task', 'anchor', 'late'])
                if k == 'task':
                    return {'op': 'l_move', 'via': via, 'arg': self.arg([x]), self.r.choice(['before', 'after']): self.pick(cur)}
                if k == 'anchor':
                    return {'op': 'l_move', 'via': via, 'arg': self.arg([self.pick(cur)]), self.r.choice(['before', 'after']): x}
                if len(cur) >= 2:
                    t, a = self.r.sample(cur, 2)
                    return {'op': 'l_move', 'via': via, 'arg': self.arg([t, x], False), self.r.choice(['before', 'after']): a}
            if form == 'append':
                t = self.pick([x for x in self.detached_roots if self.can_adopt(x, on)])
                if t:
                    return {'op': 'l_append', 'via': via, 't': t}
            if form == 'remove' and cur:
                return {'op': 'l_remove', 'via': via, 't': self.pick(cur)}
            if form == 'move' and len(cur) >= 2:
                t, a = self.r.sample(cur, 2)
                return {'op': 'l_move', 'via': via, 'arg': self.arg([t]), self.r.choice(['before', 'after']): a}
            if form == 'sort' and cur:
                return {'op': 'l_sort', 'via': via, 'key': self.r.choice(['id', 'name']), 'reverse': self.r.random() < 0.4}
            if form == 'reorder' and cur:
                return {'op': 'l_reorder', 'via': via, 'ids': [self.T[self.pick(cur)]['id']]}
            if form == 'insert' and cur:
                t = self.pick([x for x in self.detached_roots if self.can_adopt(x, on)])
                if t:
                    return {'op': 'l_insert', 'via': via, 'i': self.r.randrange(len(cur)), 't': t}
            if form == 'remove_all' and cur:
                return {'op': 'l_remove_all', 'via': via, 'flt': self.flt([self.T[self.pick(cur)]['id']])}
            return None
        if what in ('predecessors', 'successors'):
            cur = self.T[on]['preds' if what == 'predecessors' else 'succs']
            if cur and self.r.random() < 0.5:
                return {'op': 'l_remove', 'via': via, 't': self.pick(cur)}
            for _ in range(5):
                x = self.pick(self.names)
                ok = self.can_link(on, x) if what == 'predecessors' else self.can_link(x, on)
                if ok:
                    return {'op': 'l_append', 'via': via, 't': x}
            return None
        # immutable query result
        if self.r.random() < 0.5:
            return {'op': 'q_setattr', 'q': {'h': h}, 'attr': self.r.choice(['name', 'tag', 'prio']), 'value': self.r.choice(['zz', 'q', 5])}
        return {'op': 'observe', 'what': 'call', 'q': {'h': h}}

    def g_bulk(self):
        w = self.pick([w for w in self.wn if self.members[w]])
        if not w:
            return None
        sel = self.r.sample(self.members[w], min(len(self.members[w]), self.r.randint(1, 3)))
        ids = [self.T[x]['id'] for x in sel]
        q = {'on': w, 'what': 'tasks', 'ids': ids}
        form = self.r.choice(['name', 'tag', 'parent', 'lshift', 'parent_none'])
        if form in ('name', 'tag'):
            return {'op': 'q_setattr', 'q': q, 'attr': form, 'value': self.r.choice(['X', 'Y', None])}
        if form == 'parent_none' and len(sel) == 1:
            return {'op': 'q_setattr', 'q': q, 'attr': 'parent', 'value': None}
        if form == 'parent' and len(sel) == 1:
            p = self.pick([m for m in self.members[w] if m not in sel])
            if p and all(self.can_adopt(s, p) for s in sel) and not any(s in self.anc(p) for s in sel):
                return {'op': 'q_setattr', 'q': q, 'attr': 'parent', 'value': p}
        if form == 'lshift' and len(sel) == 1:
            x = self.pick(self.names)
            if x and all(self.can_link(s, x) for s in sel):
                return {'op': self.r.choice(['q_lshift']), 'q': q, 'arg': {'k': 'list', 'items': [x]}}
        return None

    def g_create(self):
        if self.nnew >= 4:
            return None
        self.nnew += 1
        if self.r.random() < 0.25:
            items = self.r.sample(self.names, min(len(self.names), self.r.randint(0, 3)))
            ids = [self.T[i]['id'] for i in items]
            if len(set(ids)) != len(ids):
                return None
            return {'op': 'new_wbs', 'as': f'nw{self.nnew}', 'arg': self.arg(items, False), 'kw': {'title': f'NW{self.nnew}'}}
        name = f'n{self.nnew}'
        kw = {'name': name.upper()}
        tid = self.r.choice(self.u.get('idpool') or list(range(1, self.u['alpha'] + 3)))
        r = self.r.random()
        if r < 0.4:
            p = self.pick(self.names)
            if p and tid not in self.tree_ids(p):
                kw['parent'] = p
        elif r < 0.6:
            x = self.pick(self.names)
            if x:
                kw[self.r.choice(['predecessors', 'successors'])] = self.arg([x], False)
        elif r < 0.75:
            ch = [c for c in self.detached_roots if tid not in self.sub_ids(c)]
            c = self.pick(ch)
            if c:
                kw['children'] = self.arg([c], False)
        return {'op': 'new_task', 'as': name, 'id': tid, 'kw': kw}

    def g_observe(self):
        w = self.pick(self.wn)
        form = self.r.choice(['getitem', 'tasks', 'critical_path', 'str', 'all', 'w_setattr', 'w_setattr'])
        if form == 'w_setattr':
            return {'op': 'w_setattr', 'w': w, 'attr': self.r.choice(['title', 'owner', 'rev']), 'value': self.r.choice(['T1', 'T2', 7, None])}
        if form == 'getitem':
            return {'op': 'observe', 'what': 'getitem', 'w': w, 'id': self.r.choice((self.u.get('idpool') or [1, 2, 3]) + [0, 'zz'])}
        if form == 'all':
            return {'op': 'observe', 'what': 'all', 't': self.pick(self.names)}
        if form == 'str':
            return {'op': 'observe', 'what': 'str', 'on': self.pick(self.names)}
        return {'op': 'observe', 'what': form, 'w': w}

    # ---- fault intents
    def f_dup_id(self):
        # a task whose id (or a descendant's id) already exists in the receiving tree
        for _ in range(10):
            tgt = self.pick(self.wn + self.names)
            mem = self.members[tgt] if tgt in self.wn else list(self.tree_ids(tgt).values())
            ids = {self.T[m]['id'] for m in mem}
            cands = [t for t in self.detached_roots + self.detached_inner if t not in mem and self.sub_ids(t) & ids]
            t = self.pick(cands)
            if not t:
                continue
            if tgt in self.wn:
                return self.r.choice([{'op': 'floordiv', 'on': tgt, 'arg': self.arg([t])},
                                      {'op': 'l_append', 'via': self.via(tgt, 'roots'), 't': t},
                                      {'op': 'set_children', 'on': tgt, 'arg': self.arg(self.S['wbs'][tgt]['roots'] + [t], False)}])
            return self.r.choice([{'op': 'set_parent', 't': t, 'p': tgt},
                                  {'op': 'l_append', 'via': self.via(tgt, 'children'), 't': t},
                                  {'op': 'iadd_children', 'on': tgt, 'arg': self.arg([t])},
                                  {'op': 'l_insert', 'via': self.via(tgt, 'children'), 'i': 0, 't': t}])
        # two incoming tasks with equal ids
        by = {}
        for t in self.detached_roots:
            by.setdefault(self.T[t]['id'], []).append(t)
        pairs = [v for v in by.values() if len(v) >= 2]
        if pairs and 'dup-incoming' not in self.quarantine:
            a, b = self.pick(pairs)[:2]
            tgt = self.pick([x for x in self.wn + self.names if x not in (a, b)])
            return {'op': 'set_children', 'on': tgt, 'arg': self.arg([a, b], False)}
        return None

    def f_cross_wbs(self):
        ws = [w for w in self.wn if self.members[w]]
        if not ws:
            return None
        w1 = self.pick(ws)
        t = self.pick(self.members[w1])
        form = self.r.choice(['other_wbs', 'detached_parent', 'detached_children', 'other_roots'])
        if form == 'other_wbs' and len(ws) >= 2:
            w2 = self.pick([w for w in ws if w != w1])
            p = self.pick(self.members[w2])
            return self.r.choice([{'op': 'set_parent', 't': t, 'p': p},
                                  {'op': 'l_append', 'via': self.via(p, 'children'), 't': t},
                                  {'op': 'set_children', 'on': p, 'arg': self.arg(self.T[p]['children'] + [t], False)}])
        if form == 'other_roots' and len(self.wn) >= 2:
            w2 = self.pick([w for w in self.wn if w != w1])
            return self.r.choice([{'op': 'floordiv', 'on': w2, 'arg': self.arg([t])},
                                  {'op': 'l_append', 'via': self.via(w2, 'roots'), 't': t}])
        d = self.pick(self.detached_roots)
        if d and form == 'detached_parent':
            return {'op': 'set_parent', 't': t, 'p': d}
        if d and form == 'detached_children':
            return {'op': 'set_children', 'on': d, 'arg': self.arg(self.T[d]['children'] + [t], False)}
        return None

    def f_hier_cycle(self):
        t = self.pick(self.names)
        form = self.r.choice(['self_parent', 'self_child', 'desc_parent', 'anc_child', 'self_append'])
        if form == 'self_parent':
            return {'op': 'set_parent', 't': t, 'p': t}
        if form == 'self_child':
            return {'op': 'set_children', 'on': t, 'arg': self.arg(self.T[t]['children'] + [t], False)}
        if form == 'self_append':
            return {'op': 'l_append', 'via': self.via(t, 'children'), 't': t}
        withd = [x for x in self.names if self.desc(x)]
        t = self.pick(withd)
        if not t:
            return None
        d = self.pick(self.desc(t))
        if form == 'desc_parent':
            return self.r.choice([{'op': 'set_parent', 't': t, 'p': d},
                                  {'op': 'l_append', 'via': self.via(d, 'children'), 't': t}])
        return self.r.choice([{'op': 'set_children', 'on': d, 'arg': self.arg([t], False)},
                              {'op': 'iadd_children', 'on': d, 'arg': self.arg([t])},
                              {'op': 'floordiv', 'on': d, 'arg': self.arg([t])}])

    def f_dep_cycle(self):
        t = self.pick(self.names)
        form = self.r.choice(['self', 'self', 'direct', 'transitive'])
        if form == 'self':
            return self.r.choice([{'op': 'set_preds', 't': t, 'arg': self.arg([t])},
                                  {'op': 'set_succs', 't': t, 'arg': self.arg([t])},
                                  {'op': 'lshift', 't': t, 'arg': self.arg([t])},
                                  {'op': 'l_append', 'via': self.via(t, self.r.choice(['predecessors', 'successors'])), 't': t}])
        linked = [x for x in self.names if self.T[x]['preds']]
        t = self.pick(linked)
        if not t:
            return None
        # all transitive predecessors of t
        seen, stack = [], list(self.T[t]['preds'])
        while stack:
            x = stack.pop()
            if x not in seen:
                seen.append(x)
                stack.extend(self.T[x]['preds'])
        p = self.pick(seen if form == 'transitive' else self.T[t]['preds'])
        # make t a predecessor of p  -> cycle
        return self.r.choice([{'op': 'set_preds', 't': p, 'arg': self.arg(self.T[p]['preds'] + [t], False)},
                              {'op': 'lshift', 't': p, 'arg': self.arg([t])},
                              {'op': 'rshift', 't': t, 'arg': self.arg([p])},
                              {'op': 'l_append', 'via': self.via(t, 'successors'), 't': p},
                              {'op': 'set_succs', 't': t, 'arg': self.arg(self.T[t]['succs'] + [p], False)}])

    def f_dep_ancestor(self):
        form = self.r.choice(['anc_pred', 'desc_pred', 'link_then_parent', 'link_then_children'])
        withanc = [x for x in self.names if self.anc(x)]
        if form in ('anc_pred', 'desc_pred'):
            t = self.pick(withanc)
            if not t:
                return None
            a = self.pick(self.anc(t))
            if form == 'anc_pred':
                lo, hi = t, a
            else:
                lo, hi = a, t
            return self.r.choice([{'op': 'set_preds', 't': lo, 'arg': self.arg([hi])},
                                  {'op': 'set_succs', 't': lo, 'arg': self.arg([hi])},
                                  {'op': 'lshift', 't': lo, 'arg': self.arg([hi])},
                                  {'op': 'rshift', 't': lo, 'arg': self.arg([hi])},
                                  {'op': 'l_append', 'via': self.via(lo, self.r.choice(['predecessors', 'successors'])), 't': hi}])
        # link-then-parent: t (or a descendant) is linked with p or one of p's ancestors
        linked = [x for x in self.names if self.T[x]['preds'] + self.T[x]['succs']]
        s = self.pick(linked)
        if not s:
            return None
        other = self.pick(self.T[s]['preds'] + self.T[s]['succs'])
        t = self.pick([s] + self.anc(s))
        p = self.pick([other] + self.desc(other))
        if p == t or p in self.desc(t) or t in self.desc(p) and False:
            return None
        if form == 'link_then_parent':
            return self.r.choice([{'op': 'set_parent', 't': t, 'p': p},
                                  {'op': 'l_append', 'via': self.via(p, 'children'), 't': t}])
        return self.r.choice([{'op': 'set_children', 'on': p, 'arg': self.arg(self.T[p]['children'] + [t], False)},
                              {'op': 'iadd_children', 'on': p, 'arg': self.arg([t])}])

    def f_missing_anchor(self):
        c = self.list_owner()
        if not c:
            return None
        on, what, lst = c
        outsider = self.pick([x for x in self.names if x not in lst])
        t = self.pick(lst)
        form = self.r.choice(['no_anchor', 'self_anchor', 'both', 'foreign_anchor', 'foreign_task', 'late_foreign'])
        v = self.via(on, what)
        if form == 'no_anchor':
            return {'op': 'l_move', 'via': v, 'arg': self.arg([t])}
        if form == 'self_anchor':
            return {'op': 'l_move', 'via': v, 'arg': self.arg([t]), self.r.choice(['before', 'after']): t}
        if form == 'both' and len(lst) >= 2:
            a = self.pick([x for x in lst if x != t])
            return {'op': 'l_move', 'via': v, 'arg': self.arg([t]), 'before': a, 'after': a}
        if outsider and form == 'foreign_anchor':
            return {'op': 'l_move', 'via': v, 'arg': self.arg([t]), self.r.choice(['before', 'after']): outsider}
        if outsider and form == 'foreign_task' and len(lst) >= 1:
            return {'op': 'l_move', 'via': v, 'arg': self.arg([outsider]), 'before': t}
        if outsider and form == 'late_foreign' and len(lst) >= 2:
            a = self.pick([x for x in lst if x != t])
            return {'op': 'l_move', 'via': v, 'arg': self.arg([t, outsider], False), 'before': a}
        return None

    def f_bad_index(self):
        t = self.pick([x for x in self.detached_roots])
        owners = self.wn + self.names
        on = self.pick(owners)
        if not t or on == t:
            return None
        lst = self.S['wbs'][on]['roots'] if on in self.wn else self.T[on]['children']
        if not self.can_adopt(t, on):
            return None
        n = len(lst)
        i = self.r.choice([n, n + 1, n + 3, -n - 1, -1, -n] if n else [0, 1, -1])
        return {'op': 'l_insert', 'via': self.via(on, 'roots' if on in self.wn else 'children'), 'i': i, 't': t}

    def f_bad_value(self):
        t = self.pick(self.names)
        c = self.list_owner()
        form = self.r.choice(['none_append', 'none_parent_list', 'int', 'str', 'obj', 'repeat', 'repeat_replace', 'repeat_replace', 'none_item', 'reorder_bad', 'sort_bad', 'wremove_none'])
        if form == 'none_append':
            what = self.r.choice(['children', 'predecessors', 'successors'])
            return {'op': self.r.choice(['l_append', 'l_remove']), 'via': self.via(t, what), 't': None}
        if form in ('int', 'str', 'obj'):
            return {'op': self.r.choice(['set_children', 'set_preds', 'set_succs', 'iadd_children', 'lshift']),
                    'on': t, 't': t, 'arg': {'k': form}}
        if form == 'repeat':
            x = self.pick([x for x in self.detached_roots if x != t and self.can_adopt(x, t)])
            if x:
                return {'op': 'set_children', 'on': t, 'arg': {'k': 'list', 'items': self.T[t]['children'] + [x, x]}}
            p = self.pick([p for p in self.names if self.can_link(t, p)])
            if p:
                return {'op': 'set_preds', 't': t, 'arg': {'k': 'list', 'items': [p, p]}}
        if form == 'repeat_replace' and c and len(c[2]) >= 2:
            # same length as the current list, one child named twice, another one left out
            lst = list(c[2])
            i, j = self.r.sample(range(len(lst)), 2)
            lst[j] = lst[i]
            return {'op': 'set_children', 'on': c[0], 'arg': {'k': 'list', 'items': lst}}
        if form == 'none_item':
            x = self.pick([x for x in self.detached_roots if x != t and self.can_adopt(x, t)])
            return {'op': 'set_children', 'on': t, 'arg': {'k': 'list', 'items': self.T[t]['children'] + [None] + ([x] if x else [])}}
        if form == 'reorder_bad' and c:
            ids = [self.T[x]['id'] for x in c[2]]
            return {'op': 'l_reorder', 'via': self.via(c[0], c[1]),
                    'ids': self.r.choice([[999], ids[:1] + [999], ids[:1] + ids[:1]])}
        if form == 'sort_bad' and c:
            return {'op': 'l_sort', 'via': self.via(c[0], c[1]), 'key': self.r.choice(['nope', 'tag', 'estimate', 7])}
        if form == 'wremove_none':
            return {'op': 'w_remove', 'w': self.pick(self.wn), 't': None}
        return None

    def f_iter_fail(self):
        """wrap the iterable argument of a legal operation into an iterator that raises at element k"""
        for _ in range(5):
            op = self.legal_op(['attach_root', 'attach_under', 'link', 'reorder', 'remove', 'unlink'])
            if op is None:
                continue
            a = op.get('arg')
            if a and a.get('k') in ('list', 'tuple', 'gen') and a.get('items') is not None:
                a['k'] = 'iter_fail'
                a['fail_at'] = self.rf.randint(0, len(a['items']))
                return op
        return None

    def f_one_shot(self):
        for _ in range(5):
            op = self.legal_op(['attach_root', 'attach_under', 'link', 'reorder', 'remove', 'unlink'])
            if op is None:
                continue
            a = op.get('arg')
            if a and a.get('k') in ('list', 'tuple') and a.get('items'):
                a['k'] = 'gen'
                return op
        return None

    def f_multi_late(self):
        """multi-element argument whose LAST element is the offending one"""
        form = self.r.choice(['children_dup', 'children_cross', 'children_anc', 'children_anc', 'children_linked', 'preds_anc', 'preds_cycle', 'succs_cycle', 'move_foreign', 'bulk_parent', 'bulk_lshift'])
        if form.startswith('children'):
            tgt = self.pick(self.wn + self.names)
            if form in ('children_anc', 'children_linked'):
                withkids = [x for x in self.names if self.T[x]['children'] and (self.anc(x) or form == 'children_linked')]
                tgt = self.pick(withkids) or tgt
            good = [x for x in self.detached_roots if x != tgt and self.can_adopt(x, tgt)]
            g = self.pick(good)
            if not g and form not in ('children_anc', 'children_linked'):
                return None
            cur = self.S['wbs'][tgt]['roots'] if tgt in self.wn else self.T[tgt]['children']
            bad = None
            if form == 'children_dup':
                mem = self.members[tgt] if tgt in self.wn else list(self.tree_ids(tgt).values())
                ids = {self.T[m]['id'] for m in mem} | self.sub_ids(g)
                bad = self.pick([t for t in self.detached_roots if t not in (g, tgt) and t not in mem and self.sub_ids(t) & ids])
                if bad and self.T[bad]['id'] == self.T[g]['id'] and 'dup-incoming' in self.quarantine:
                    return None
            elif form == 'children_cross':
                ow = tgt if tgt in self.wn else self.T[tgt]['wbs']
                others = [m for w in self.wn if w != ow for m in self.members[w]]
                bad = self.pick(others)
            elif form == 'children_anc' and tgt in self.names:
                bad = self.pick(self.anc(tgt))
            elif form == 'children_linked' and tgt in self.names:
                chain = [tgt] + self.anc(tgt)
                linked = [x for x in self.detached_roots if x != tgt and any(
                    l in chain for s2 in [x] + self.desc(x) for l in self.T[s2]['preds'] + self.T[s2]['succs'])]
                bad = self.pick(linked)
            if not bad:
                return None
            items = (list(cur) if self.r.random() < 0.8 else []) + ([g] if g else []) + [bad]
            if self.r.random() < 0.6:
                # offender somewhere in the middle: elements after it are the interesting ones
                items.remove(bad)
                items.insert(self.r.randrange(len(items) + 1), bad)
            return {'op': self.r.choice(['set_children', 'iadd_children', 'floordiv']), 'on': tgt,
                    'arg': self.arg(items, False)}
        if form in ('preds_anc', 'preds_cycle', 'succs_cycle'):
            t = self.pick(self.names)
            good = self.pick([p for p in self.names if self.can_link(t, p)] if form != 'succs_cycle' else [p for p in self.names if self.can_link(p, t)])
            if not good:
                return None
            if form == 'preds_anc':
                bad = self.pick(self.anc(t) + self.desc(t))
                op = self.r.choice(['set_preds', 'set_succs', 'iadd_preds', 'lshift'])
            elif form == 'preds_cycle':
                bad = self.pick(self.T[t]['succs'] + [t])
                op = self.r.choice(['set_preds', 'iadd_preds', 'lshift'])
            else:
                bad = self.pick(self.T[t]['preds'] + [t])
                op = self.r.choice(['set_succs', 'iadd_succs', 'rshift'])
            if not bad:
                return None
            return {'op': op, 't': t, 'arg': self.arg([good, bad] if self.r.random() < 0.6 else [bad, good], False)}
        if form == 'move_foreign':
            c = self.list_owner()
            if not c or len(c[2]) < 2:
                return None
            t, a = self.r.sample(c[2], 2)
            out = self.pick([x for x in self.names if x not in c[2]])
            if not out:
                return None
            return {'op': 'l_move', 'via': self.via(c[0], c[1]), 'arg': self.arg([t, out], False), 'before': a}
        if 'bulk-partial' in self.quarantine:
            return None
        w = self.pick([w for w in self.wn if len(self.members[w]) >= 3])
        if not w:
            return None
        if form == 'bulk_parent':
            p = self.pick(self.members[w])
            good = [m for m in self.members[w] if m != p and self.can_adopt(m, p) and self.T[m]['parent'] != p]
            bad = self.anc(p)
            if good and bad:
                g, b = self.pick(good), self.pick(bad)
                order = [x for x in self.members[w] if x in (g, b)]
                if order and order[0] == g:
                    return {'op': 'q_setattr', 'q': {'on': w, 'what': 'tasks', 'ids': [self.T[g]['id'], self.T[b]['id']]}, 'attr': 'parent', 'value': p}
            return None
        x = self.pick(self.names)
        sel = [m for m in self.members[w] if m != x]
        good = [m for m in sel if self.can_link(m, x)]
        bad = [m for m in sel if not self.can_link(m, x)]
        if good and bad:
            g, b = self.pick(good), self.pick(bad)
            order = [m for m in self.members[w] if m in (g, b)]
            if order[0] == g:
                return {'op': 'q_lshift', 'q': {'on': w, 'what': 'tasks', 'ids': [self.T[g]['id'], self.T[b]['id']]}, 'arg': {'k': 'list', 'items': [x]}}
        return None

    def f_cb_fail(self):
        c = self.list_owner()
        if not c:
            return None
        ids = [self.T[x]['id'] for x in c[2]]
        flt = {'k': 'pred', 'ids': ids[:2], 'fail_at': self.rf.randint(0, max(0, len(c[2]) - 1))}
        w = self.T[c[2][0]]['wbs']
        if w and self.r.random() < 0.5:
            flt['fail_at'] = self.rf.randint(0, max(0, len(self.members[w]) - 1))
            return {'op': 'w_remove_all', 'w': w, 'flt': flt}
        return {'op': 'l_remove_all', 'via': self.via(c[0], c[1]), 'flt': flt}

    FAULT_FN = {'rej.dup_id': 'f_dup_id', 'rej.cross_wbs': 'f_cross_wbs', 'rej.hier_cycle': 'f_hier_cycle',
                'rej.dep_cycle': 'f_dep_cycle', 'rej.dep_ancestor': 'f_dep_ancestor',
                'rej.missing_anchor': 'f_missing_anchor', 'rej.bad_index': 'f_bad_index',
                'rej.bad_value': 'f_bad_value', 'arg.one_shot': 'f_one_shot', 'arg.iter_fail': 'f_iter_fail',
                'arg.multi_late': 'f_multi_late', 'cb.fail': 'f_cb_fail', 'handle.stale': 'g_use_handle',
                'reattach': 'g_reattach'}

    def legal_op(self, intents=None):
        w = self.cfg['legal']
        pool = [k for k in (intents or LEGAL_INTENTS) if intents or w.get(k)]
        weights = [1 if intents else w[k] for k in pool]
        for _ in range(8):
            k = self.r.choices(pool, weights)[0]
            op = getattr(self, 'g_' + k)()
            if op is not None:
                op['_intent'] = k
                return op
        return None

    def g_orphan_followup(self, orphans):
        """Only reachable on a tree that is already corrupted (a task that still claims a WBS although it is no
        longer reachable from its roots): aim the next operations at the orphan, because that is where a broken
        rejection path turns into duplicate ids / double listing.  Never fires on a sound tree."""
        x = self.pick(orphans)
        w = self.T[x]['wbs']
        form = self.r.choice(['twin', 'twin', 'move', 'move', 'move_none', 'append'])
        if form == 'twin':
            twins = [d for d in self.detached_roots if self.T[x]['id'] in self.sub_ids(d)]
            d = self.pick(twins)
            if d:
                tgt = self.pick([w] + self.members[w])
                if tgt == w:
                    return {'op': 'floordiv', 'on': w, 'arg': self.arg([d])}
                return {'op': 'set_parent', 't': d, 'p': tgt}
        m = self.pick(self.members[w])
        if form == 'move_none' or not m:
            return {'op': 'set_parent', 't': x, 'p': None}
        if form == 'append':
            return {'op': 'l_append', 'via': self.via(m, 'children'), 't': x}
        return {'op': 'set_parent', 't': x, 'p': m}

    def next_op(self, S, world, step):
        self.setup(S, world)
        orphans = [t for t in self.names if self.T[t]['wbs'] in self.members and t not in self.members[self.T[t]['wbs']]]
        if orphans and self.r.random() < 0.6:
            op = self.g_orphan_followup(orphans)
            if op is not None:
                op['_intent'] = 'orphan_followup'
                return op
        if step < self.cfg['build']:
            pool = ['attach_root', 'attach_root', 'attach_under', 'attach_under', 'link', 'move_in_wbs']
            for _ in range(8):
                k = self.r.choice(pool)
                op = getattr(self, 'g_' + k)()
                if op is not None:
                    op['_intent'] = k
                    return op
        fw = self.cfg['fault']
        if self.rf.random() < self.cfg['fault_rate'] and any(fw.values()):
            kinds = [k for k in FAULT_KINDS if fw[k]]
            for _ in range(6):
                k = self.rf.choices(kinds, [fw[x] for x in kinds])[0]
                op = getattr(self, self.FAULT_FN[k])()
                if op is not None:
                    op['_intent'] = k
                    return op
        return self.legal_op() or {'op': 'observe', 'what': 'tasks', 'w': self.wn[0], '_intent': 'observe'}
