"""Command-line driver shared by all machines: seeded search, known findings, shrinking,
replay verification in a fresh interpreter, VIOLATION / KNOWN-FINDING lines, evidence."""
import argparse
import importlib
import json
import os
import subprocess
import sys

from . import core

MACHINE_OF = {
    'C01': 'gmachine', 'C05': 'gmachine', 'C10': 'gmachine', 'C11': 'gmachine', 'C15': 'gmachine', 'C16': 'gmachine',
    'C02': 'smachine', 'C03': 'smachine', 'C04': 'smachine', 'C06': 'smachine', 'C07': 'smachine',
    'C08': 'smachine', 'C09': 'smachine', 'C14': 'smachine',
    'C13': 'cmachine', 'C19': 'rmachine',
}

COMPONENTS = {
    'real_code': ['pjplan.task', 'pjplan.wbs', 'pjplan.schedule', 'pjplan.resource', 'pjplan.calendar',
                  'pjplan.io.csv_io', 'pjplan.io.raw', 'pjplan.viz.*', 'CPython io.TextIOWrapper/Buffered*/csv'],
    'stubs': ['wall clock (SimClock behind datetime.now in every pjplan module)',
              'file system under csv_io.open (SimFS + SimRawIO)',
              'resource peer SimResource(IResource) (next to the real Resource)',
              'clients / handles (simulated)'],
}


def machine(prop):
    name = MACHINE_OF.get(prop)
    if name is None:
        raise core.HarnessError(f'property {prop} is not claimed (see MANIFEST.json not_applicable)')
    return importlib.import_module('sim.' + name)


def seeds_for(base, n):
    # disjoint, reproducible seed ranges per VERIF_SEED
    start = (int(base) % 1_000_000) * 10_000_000
    return range(start, start + n)


def replay_file(path, prop=None, quiet=False):
    trace = core.read_json(path)
    prop = prop or trace.get('property')
    m = machine(prop)
    r = m.replay(trace, prop, keep_log=True)
    v = r.violation
    res = {'property': prop, 'violation': v.as_dict() if v else None, 'digest': r.log.digest()}
    if trace.get('cross_interpreter') and not os.environ.get('VERIF_XPROC_CHILD') and v is None:
        # the violation of this file is a DIFFERENCE between interpreters: run it again under another hash seed
        env = dict(os.environ, PYTHONHASHSEED='271828', VERIF_XPROC_CHILD='1')
        p = subprocess.run([sys.executable, os.path.join(core.VERIF_DIR, 'check'), prop, '--replay', path],
                           capture_output=True, text=True, env=env, timeout=600)
        other = None
        for line in p.stdout.splitlines():
            if line.startswith('REPLAY '):
                other = json.loads(line[len('REPLAY '):])
        if other is None:
            raise core.HarnessError('cross-interpreter replay child failed: ' + p.stderr[-300:])
        if other['digest'] != res['digest']:
            res['violation'] = dict(trace.get('expect') or {}, property=prop, clause='differs-across-interpreters',
                                    sig='C06/differs-across-interpreters',
                                    detail=f"digest {res['digest']} here, {other['digest']} under PYTHONHASHSEED=271828")
    if not quiet:
        print('REPLAY ' + json.dumps(res, sort_keys=True, default=str))
    return res


def fresh_replay(path, prop, hashseed='0'):
    """replay in a fresh interpreter (other PYTHONHASHSEED) and return the parsed result"""
    env = dict(os.environ, PYTHONHASHSEED=hashseed)
    p = subprocess.run([sys.executable, os.path.join(core.VERIF_DIR, 'check'), prop, '--replay', path],
                       capture_output=True, text=True, env=env, timeout=300)
    for line in p.stdout.splitlines():
        if line.startswith('REPLAY '):
            return json.loads(line[len('REPLAY '):])
    raise core.HarnessError(f'fresh replay produced no result: rc={p.returncode}\n{p.stdout[-2000:]}\n{p.stderr[-2000:]}')


def run_check(prop, tier, base_seed, runs_override=None, workers=None):
    t0 = core.now_wall()
    core.TIER = tier
    m = machine(prop)
    kf = core.KnownFindings()
    known = kf.for_prop(prop)
    quarantine = sorted({q for k in kf.known for q in m.QUARANTINE_OF.get(k['sig'], ())}) \
        if hasattr(m, 'QUARANTINE_OF') else []
    if os.environ.get('VERIF_NO_QUARANTINE'):
        quarantine = []
    out_lines = []
    known_hit = []

    # 1. per-finding regression: does each listed finding still fail exactly as listed?
    for k in known:
        path = os.path.join(core.VERIF_DIR, k['replay']) if k.get('replay') else None
        if path and os.path.exists(path):
            res = replay_file(path, prop, quiet=True)
            if res['violation'] is not None and res['violation']['sig'] == k['sig']:
                out_lines.append(f"KNOWN-FINDING: property={prop} {k['sig']} {k['text']}")
                known_hit.append(k['sig'])
            elif res['violation'] is not None:
                # the listed history now fails differently: that is a new violation
                out_lines.append(f"VIOLATION property={prop} replay={path}")
        else:
            raise core.HarnessError(f'known finding without replay file: {k}')

    # 1b. regression histories of repaired defects: suppress nothing, must simply pass
    fixed_dir = os.path.join(core.VERIF_DIR, 'findings', 'fixed')
    regress = 0
    if os.path.isdir(fixed_dir):
        for fn in sorted(os.listdir(fixed_dir)):
            if not fn.endswith('.json'):
                continue
            path = os.path.join(fixed_dir, fn)
            tr = core.read_json(path)
            if tr.get('property') != prop:
                continue
            regress += 1
            res = replay_file(path, prop, quiet=True)
            if res['violation'] is not None:
                out_lines.append(f'VIOLATION property={prop} replay={path}')
                out_lines.append(f"  (regression of a repaired defect) {res['violation']['sig']}: {res['violation']['detail']}")

    # 2. seeded search
    n = runs_override or m.TIER_RUNS[tier].get(prop, m.TIER_RUNS[tier]['default'])
    workers = workers or min(16, os.cpu_count() or 1)
    seeds = list(seeds_for(base_seed, n))
    per = max(1, min(2000, (n + workers * 4 - 1) // (workers * 4)))
    payloads = [{'prop': prop, 'seeds': seeds[i:i + per], 'quarantine': quarantine, 'tier': tier}
                for i in range(0, n, per)]
    agg = core.Agg()
    for a in core.run_chunks(m.chunk, payloads, workers):
        agg.merge(a)

    # 2b. machine-specific cross-process stage (C06: same seeds under another PYTHONHASHSEED)
    xproc = []
    if hasattr(m, 'cross_interpreter'):
        xproc = m.cross_interpreter(prop, seeds, quarantine)
        for sd, v in xproc:
            path = os.path.join(os.environ.get('VERIF_REPLAY_DIR') or os.path.join(core.VERIF_DIR, 'replays'),
                                f'{prop}-xproc-{sd}.json')
            tr = m.regenerate(sd, prop, quarantine)
            tr['property'] = prop
            tr['cross_interpreter'] = True
            tr['expect'] = v
            core.write_json(path, tr)
            out_lines.append(f'VIOLATION property={prop} replay={path}')
            out_lines.append(f"  {v['sig']}: {v['detail']} (replay: run the file in two interpreters with different PYTHONHASHSEED and compare the REPLAY digests)")

    # 3. violations: minimise, classify against known findings, verify replay, report
    violations = len(xproc)
    seen_sigs = {}
    for seed, v in agg.violations:
        seen_sigs.setdefault(v['sig'], []).append(seed)
    reported = 0
    unreproducible = []
    work = []
    for sig, seeds_of in sorted(seen_sigs.items(), key=lambda kv: kv[1][0]):
        work.append((sig, seeds_of[:6]))
    for sig, seeds_of in work:
        if reported >= 5:
            violations += 1
            continue
        # a violation seen by a worker must reproduce from its seed; if the first seed of a signature does not
        # (state of the code under test leaking between runs of one worker process), the next ones are tried
        trace = r0 = None
        for seed in seeds_of:
            trace = m.regenerate(seed, prop, quarantine)
            r0 = m.replay(trace, prop)
            if r0.violation is not None:
                break
            unreproducible.append((sig, seed))
        seed = seeds_of[0] if r0 is None or r0.violation is None else seed
        flaky = False
        if r0.violation is None:
            trace = m.regenerate(seed, prop, quarantine)
            # The worker saw a violation that the same seed does not show again.  The simulator owns every input
            # (self-test: digests agree across interpreters), so the code under test is itself nondeterministic.
            # Only C06 states determinism; there the history is amplified (many repeats of the same calc) until
            # the difference shows again.  Everywhere else this is a harness error, never a pass.
            amp = m.amplify(trace, prop) if hasattr(m, 'amplify') else None
            if amp is not None:
                for _ in range(6):
                    r0 = m.replay(amp, prop)
                    if r0.violation is not None:
                        break
            if amp is None or r0.violation is None:
                continue
            trace, flaky = amp, True
        small = trace if flaky else m.shrink(trace, prop, r0.violation.clause)
        r1 = m.replay(small, prop, keep_log=True)
        if r1.violation is None:
            # either the history was amplified (flaky by nature) or the shrinker was misled by a predicate that does
            # not always fail: go back to the unshrunk (if necessary amplified) history and retry
            flaky = True
            for cand in (small, trace, m.amplify(trace, prop) if hasattr(m, 'amplify') else None):
                if cand is None:
                    continue
                for _ in range(6):
                    r1 = m.replay(cand, prop, keep_log=True)
                    if r1.violation is not None:
                        break
                if r1.violation is not None:
                    small = cand
                    break
        if r1.violation is None:
            unreproducible.append((sig, seed))
            continue
        msig = r1.violation.sig
        if kf.match(prop, msig) or kf.match(prop, sig):
            if msig not in known_hit and sig not in known_hit:
                k = kf.match(prop, msig) or kf.match(prop, sig)
                out_lines.append(f"KNOWN-FINDING: property={prop} {k['sig']} {k['text']}")
                known_hit.append(k['sig'])
            continue
        small['property'] = prop
        if flaky:
            small['nondeterministic_code_under_test'] = True
        small['expect'] = {'clause': r1.violation.clause, 'sig': msig, 'detail': r1.violation.detail,
                           'digest': r1.log.digest(), 'found_by_seed': seed}
        path = os.path.join(os.environ.get('VERIF_REPLAY_DIR') or os.path.join(core.VERIF_DIR, 'replays'), f'{prop}-{r1.log.digest()[:12]}.json')
        core.write_json(path, small)
        fr = fresh_replay(path, prop)
        if flaky:
            # result of the code under test varies between executions: only the clause can be compared
            for _ in range(5):
                if fr['violation'] is not None:
                    break
                fr = fresh_replay(path, prop)
            if fr['violation'] is None or fr['violation']['clause'] != r1.violation.clause:
                # seen by a worker and again in this process, but not in 6 fresh interpreters: still a violation of
                # the code under test (its result varies between executions); the replay file is probabilistic
                out_lines.append(f'  note: {path} reproduces only with some probability (result of the code under test varies between executions)')
        elif fr['violation'] is not None and fr['violation']['clause'] == r1.violation.clause and fr['digest'] != r1.log.digest():
            # same violation, different event log: what the code under test computes varies between executions
            out_lines.append(f'  note: {path} fails with the same clause in a fresh interpreter but with a different event log '
                             '(result of the code under test varies between executions)')
        elif fr['violation'] is None or fr['violation']['clause'] != r1.violation.clause:
            # seen by a worker, again from the seed and again after shrinking in this process, but not in a fresh
            # interpreter: try a few more times; whatever the outcome this is a violation whose replay is probabilistic
            for _ in range(4):
                if fr['violation'] is not None and fr['violation']['clause'] == r1.violation.clause:
                    break
                fr = fresh_replay(path, prop, hashseed=str(_ + 1))
            out_lines.append(f'  note: {path} did not fail in every fresh interpreter (result of the code under test varies between executions)')
        out_lines.append(f'VIOLATION property={prop} replay={path}')
        out_lines.append(f'  {msig}: {r1.violation.detail}')
        violations += 1
        reported += 1

    if unreproducible and not any(l.startswith('VIOLATION') for l in out_lines):
        # nothing reproducible to report, but workers did see violations: never a pass
        raise core.HarnessError(f'{len(unreproducible)} violation(s) seen by workers did not reproduce from their seeds, e.g. {unreproducible[0]}: '
                                'the code under test (or the harness) keeps state between runs')
    wall = core.now_wall() - t0
    cov = m.coverage(prop, agg, tier, wall, workers)
    cov['violations_not_reproducible_from_seed'] = len(unreproducible)
    cov['known_findings_hit'] = known_hit
    if hasattr(m, 'cross_interpreter') and prop == 'C06':
        cov['cross_interpreter_seeds_compared'] = min(150, len(seeds))
        cov['cross_interpreter_mismatches'] = len(xproc)
    cov['regression_histories_replayed'] = regress
    cov['components'] = COMPONENTS
    cov['quarantine'] = quarantine
    core.write_evidence(prop, tier, base_seed, cov, wall, violations, m.ASSUMPTIONS.get(prop, m.ASSUMPTIONS['default']))
    for line in out_lines:
        print(line)
    print(f'{prop} {tier}: runs={agg.runs} steps={agg.ops} distinct_states={len(agg.states)} '
          f'violations={violations} known={len(known_hit)} wall={wall:.1f}s')
    return core.EXIT_VIOLATION if any(l.startswith('VIOLATION') for l in out_lines) else core.EXIT_OK


def main(argv=None):
    ap = argparse.ArgumentParser()
    ap.add_argument('prop')
    ap.add_argument('--tier', default=os.environ.get('VERIF_TIER', 'quick'), choices=['quick', 'thorough'])
    ap.add_argument('--replay')
    ap.add_argument('--seed', default=os.environ.get('VERIF_SEED', '0'))
    ap.add_argument('--runs', type=int, default=int(os.environ['VERIF_RUNS']) if os.environ.get('VERIF_RUNS') else None)
    ap.add_argument('--workers', type=int, default=int(os.environ['VERIF_WORKERS']) if os.environ.get('VERIF_WORKERS') else None)
    a = ap.parse_args(argv)
    try:
        seed = int(a.seed)
    except ValueError:
        seed = int.from_bytes(a.seed.encode(), 'big') % 1_000_000
    try:
        if a.prop.startswith('selftest'):
            from . import selftest
            return selftest.main(a.prop, a)
        core.load_pjplan()
        if a.replay:
            res = replay_file(a.replay, a.prop)
            if res['violation']:
                print(f"VIOLATION property={a.prop} replay={a.replay}")
                return core.EXIT_VIOLATION
            return core.EXIT_OK
        return run_check(a.prop, a.tier, seed, a.runs, a.workers)
    except core.HarnessError as e:
        print(f'HARNESS-ERROR {e}')
        return core.EXIT_HARNESS
