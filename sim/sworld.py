"""Schedule machine, part 1: scenario -> real pjplan objects, the resource peer (SimResource and
a counting wrapper around the real Resource), calc execution under a simulated clock, snapshots."""
import datetime as _dt

from . import core

DT = core._REAL_DATETIME
BUDGET = 3_000_000  # peer calls per calc; every loop in the schedulers calls the peer


class PeerDown(Exception):
    """injected failure of the resource peer"""


def D(s):
    return DT.fromisoformat(s) if s else None


def day(d):
    return DT(d.year, d.month, d.day)


class Peer:
    """shared bookkeeping of one calc: call counter (deterministic step budget) and logs"""

    def __init__(self):
        self.calls = 0
        self.reserve_log = []   # (resource name, day iso, task id, units)
        self.avail_calls = 0
        self.fail = {}          # resource name -> call index at which it goes down (counted per resource)
        self.per_res = {}

    def tick(self, name):
        self.calls += 1
        if self.calls > BUDGET:
            raise core.BudgetExceeded(f'more than {BUDGET} peer calls in one calc')
        n = self.per_res.get(name, 0)
        self.per_res[name] = n + 1
        if self.fail.get(name) == n:
            if n % 2:
                raise PeerDown()   # an exception without arguments is as legal as one with a message
            raise PeerDown(f'resource {name} failed at call {n}')


PEER = Peer()


def make_classes(pj):
    """classes that need pjplan base classes; created once after load"""

    class SimResource(pj.IResource):
        """in-process fake peer: day -> capacity table, full call log, optional failure"""

        def __init__(self, name, weekly, overrides, task_limits=None):
            super().__init__(name)
            self.weekly = list(weekly)
            self.overrides = dict(overrides)
            # IResource.get_available_units(date, task) may answer per task: some tasks can use only part of a day
            self.task_limits = {int(k) if str(k).lstrip('-').isdigit() else k: v for k, v in (task_limits or {}).items()}

        def __repr__(self):
            # pjplan formats the resource into some RuntimeError messages; the default repr carries a memory
            # address, which would make the recorded outcome differ between processes (DESIGN section 14, no. 18)
            return f'SimResource({self.name})'

        def cap(self, d, task_id=None):
            k = day(d).date().isoformat()
            base = self.overrides[k] if k in self.overrides else self.weekly[d.weekday()]
            if task_id is not None and task_id in self.task_limits and base > 0:
                return self.task_limits[task_id]   # what the resource offers to THIS task on a working day
            return base

        def get_available_units(self, date, task=None):
            PEER.tick(self.name)
            PEER.avail_calls += 1
            return self.cap(date, task.id if task is not None else None)

        def reserve(self, date, task, units):
            PEER.tick(self.name)
            PEER.reserve_log.append((self.name, core.iso(day(date)), task.id, units, len(core.CLOCK.reads)))

    class CountingResource(pj.Resource):
        """the real Resource + real calendar code; only counts calls and logs reservations"""

        def get_available_units(self, date, task=None):
            PEER.tick(self.name)
            PEER.avail_calls += 1
            return super().get_available_units(date, task)

        def reserve(self, date, task, units):
            PEER.tick(self.name)
            PEER.reserve_log.append((self.name, core.iso(day(date)), task.id, units, len(core.CLOCK.reads)))
            return super().reserve(date, task, units)

    return SimResource, CountingResource


_classes = None


def classes():
    global _classes
    if _classes is None:
        pj = core.load_pjplan()
        _classes = make_classes(pj)
        # default resources are created inside the scheduler through the module global `Resource`
        import pjplan.schedule as sch
        sch.Resource = _classes[1]
    return _classes


# --------------------------------------------------------------------------- calendars

def build_calendar(pj, spec, directs=None):
    t = spec['t']
    if t == 'weekly':
        return pj.WeeklyCalendar(start=D(spec.get('start')), end=D(spec.get('end')),
                                 days=list(spec['days']), units_per_day=spec['units'])
    if t == 'weeklyd':
        return pj.WeeklyCalendar(start=D(spec.get('start')), end=D(spec.get('end')),
                                 units_per_day={int(k): v for k, v in spec['map'].items()})
    if t == 'direct':
        c = pj.DirectCalendar({D(k): v for k, v in spec['map'].items()})
        if directs is not None:
            directs.append(c)
        return c
    if t == 'fixed':
        return pj.FixedCalendar(spec['units'], start=D(spec.get('start')), end=D(spec.get('end')))
    if t == 'op':
        a = build_calendar(pj, spec['a'], directs)
        b = spec['b']
        b = build_calendar(pj, b, directs) if isinstance(b, dict) else b
        o = spec['op']
        if o == '+':
            return a + b
        if o == '-':
            return a - b
        if o == '*':
            return a * b
        if o == '/':
            return a / b
        if o == '|':
            return a | b
    raise core.HarnessError(f'bad calendar spec {spec}')


# --------------------------------------------------------------------------- world

class SWorld:
    def __init__(self, sc):
        self.pj = pj = core.load_pjplan()
        SimResource, CountingResource = classes()
        self.sc = sc
        self.tasks = {}   # name -> input Task
        self.ext = {}     # name -> external Task
        self.id_of = {}
        self.name_of_id = {}
        self.wbs = pj.WBS(**sc.get('wbs_kw', {}))
        for t in sc['tasks']:
            kw = dict(t.get('kw', {}))
            for k in ('start', 'end', 'min_start'):
                if kw.get(k):
                    kw[k] = D(kw[k])
            obj = pj.Task(t['id'], **kw)
            self.tasks[t['name']] = obj
            self.id_of[t['name']] = t['id']
            self.name_of_id[t['id']] = t['name']
        for t in sc['tasks']:
            if t.get('parent') and t['parent'] in self.tasks:
                self.tasks[t['parent']].children.append(self.tasks[t['name']])
            else:
                self.wbs.roots.append(self.tasks[t['name']])
        for e in sc.get('external', []):
            obj = pj.Task(e['id'], name=e['name'], start=D(e.get('start')), end=D(e.get('end')),
                          estimate=e.get('estimate'), spent=e.get('spent'))
            self.ext[e['name']] = obj
        self.rejected_links = []
        for s, p in sc.get('links', []):
            a = self.tasks.get(s)
            b = self.tasks.get(p) or self.ext.get(p)
            if a is not None and b is not None:
                try:
                    a.predecessors.append(b)
                except RuntimeError:
                    self.rejected_links.append([s, p])
        self.resources = {}
        self.directs = {}
        for r in sc.get('resources', []):
            if r['kind'] == 'sim':
                self.resources[r['name']] = SimResource(r['name'], r['weekly'], r.get('overrides', {}), r.get('task_limits'))
            else:
                directs = []
                self.resources[r['name']] = CountingResource(r['name'], build_calendar(pj, r['cal'], directs))
                self.directs[r['name']] = directs
        self.schedulers = {}

    # ---- structure helpers (from the scenario, independent of pjplan traversal)
    def spec(self, name):
        for t in self.sc['tasks']:
            if t['name'] == name:
                return t
        return None

    def mutate(self, m):
        """apply a WBS edit between two calcs through the public API; returns True when accepted"""
        k = m['kind']
        try:
            if k == 'add_link':
                a, b = self.tasks.get(m['link'][0]), self.tasks.get(m['link'][1])
                if a is None or b is None or b in list(a.predecessors):
                    return False
                a.predecessors.append(b)
                return True
            if k == 'remove_link':
                a, b = self.tasks.get(m['link'][0]), self.tasks.get(m['link'][1])
                if a is None or b is None or b not in list(a.predecessors):
                    return False
                a.predecessors.remove(b)
                return True
            if k == 'set_kw':
                t = self.tasks.get(m['task'])
                if t is None:
                    return False
                v = m['value']
                if m['key'] in ('start', 'end', 'min_start') and v:
                    v = D(v)
                setattr(t, m['key'], v)
                return True
            if k == 'reparent':
                t, p = self.tasks.get(m['task']), self.tasks.get(m['parent']) if m.get('parent') else None
                if t is None or (m.get('parent') and p is None):
                    return False
                t.parent = p
                return True
            if k == 'cal_set_units':
                # in-place edit of a calendar (or of the peer's table) between two calcs
                r = self.resources.get(m['res'])
                if r is None:
                    return False
                if hasattr(r, 'overrides'):
                    r.overrides[D(m['date']).date().isoformat()] = m['units']
                    return True
                ds = self.directs.get(m['res']) or []
                if not ds:
                    return False
                ds[m.get('idx', 0) % len(ds)].set_units({D(m['date']): m['units']})
                return True
        except RuntimeError:
            return False
        raise core.HarnessError(f'bad mutation {m}')

    def make_scheduler(self, key):
        p = self.sc['schedulers'][key]
        res = [self.resources[n] for n in p.get('resources', []) if n in self.resources]
        kw = {'resources': res, 'balance_resources': p.get('balance', True)}
        if p.get('default_estimate') is not None:
            kw['default_estimate'] = p['default_estimate']
        if p['dir'] == 'fwd':
            return self.pj.ForwardScheduler(start=D(p.get('start')), **kw)
        return self.pj.BackwardScheduler(end=D(p.get('end')), **kw)

    def calc(self, op, wbs=None):
        """execute one calc under the op's clock; returns dict(outcome, result, reads, ...)"""
        global PEER
        PEER = Peer()
        PEER.fail = dict(op.get('peer_fail') or {})
        core.CLOCK.set(op['clock'])
        key = op['sched']
        created = False
        if op.get('fresh') or key not in self.schedulers:
            self.schedulers[key] = self.make_scheduler(key)
            created = True
        ctor_reads = list(core.CLOCK.reads)
        core.CLOCK.reads = []
        s = self.schedulers[key]
        out = {'created': created, 'ctor_reads': ctor_reads}
        try:
            res = s.calc(self.wbs if wbs is None else wbs)
            out['outcome'] = 'ok'
            out['result'] = res
        except core.BudgetExceeded as e:
            out['outcome'] = 'budget'
            out['exc'] = ('BudgetExceeded', str(e))
        except RecursionError as e:
            out['outcome'] = 'exc'
            out['exc'] = ('RecursionError', str(e)[:80])
        except Exception as e:  # noqa
            out['outcome'] = 'exc'
            out['exc'] = (type(e).__name__, str(e)[:160])
        out['reads'] = list(core.CLOCK.reads)
        out['peer_calls'] = PEER.calls
        out['reserve_log'] = list(PEER.reserve_log)
        PEER.fail = {}
        return out


# --------------------------------------------------------------------------- snapshots

def fields(t):
    d = {}
    for k, v in t.to_dict().items():
        if k == 'id':
            continue
        d[k] = core.iso(v) if isinstance(v, DT) else v
    d['estimate'] = t.estimate
    d['spent'] = t.spent
    return d


def input_snapshot(w):
    """observable state of the input WBS, its tasks and the external tasks (public getters)"""
    names = {id(o): n for n, o in w.tasks.items()}
    names.update({id(o): n for n, o in w.ext.items()})

    def nm(o):
        return None if o is None else names.get(id(o), f'?{getattr(o, "id", o)}')
    snap = {'roots': [nm(t) for t in w.wbs.roots], 'tasks': {},
            'attrs': {k: v for k, v in w.wbs.__dict__.items() if not k.startswith('_')},
            'order': [nm(t) for t in w.wbs.tasks]}
    for n, t in list(w.tasks.items()) + list(w.ext.items()):
        snap['tasks'][n] = {'id': t.id, 'parent': nm(t.parent), 'children': [nm(c) for c in t.children],
                            'preds': [nm(c) for c in t.predecessors], 'succs': [nm(c) for c in t.successors],
                            'wbs': 'W' if t.wbs is w.wbs else (None if t.wbs is None else '?'),
                            'fields': fields(t)}
    return snap


def result_view(w, res):
    """plain-data view of a Schedule: per task dates, rows in order"""
    sched = res.schedule
    out = {'tasks': {}, 'order': [], 'rows': [], 'wbs_start': core.iso(sched.start), 'wbs_end': core.iso(sched.end)}
    for t in sched.tasks:
        n = w.name_of_id.get(t.id, f'?{t.id}')
        out['order'].append(n)
        out['tasks'][n] = {'start': core.plain(t.start), 'end': core.plain(t.end), 'estimate': t.estimate,
                           'spent': t.spent, 'obj': t}
    for r in res.resource_usage.rows():
        out['rows'].append((r.resource.name, core.plain(r.date), w.name_of_id.get(r.task.id, f'?{r.task.id}'), r.units))
    return out


def comparable(view):
    return {'tasks': {n: (core.iso(d['start']), core.iso(d['end']), d['estimate'], d['spent'])
                      for n, d in view['tasks'].items()},
            'rows': [(a, core.iso(b), c, d) for a, b, c, d in view['rows']]}
