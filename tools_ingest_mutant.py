"""development-time tool: take one change delivered by a sub-agent (/tmp/mut/<prop>/patch<L>.diff, demo<L>.py,
notes.md), verify it with tools_eval_mutant.sh against the own check and store it as seeded/<id>-<slug>/.
usage: tools_ingest_mutant.py <prop> <A|B> <new id e.g. C05G> <slug> <round> [extra checks ...]"""
import json, os, shutil, subprocess, sys
ROOT = os.path.dirname(os.path.abspath(__file__))
prop, letter, nid, slug, rnd = sys.argv[1:6]
extra = sys.argv[6:]
src = f'/tmp/mut/{prop}'
dst = os.path.join(ROOT, 'seeded', f'{nid}-{slug}')
os.makedirs(dst, exist_ok=True)
shutil.copy(f'{src}/patch{letter}.diff', f'{dst}/patch.diff')
shutil.copy(f'{src}/demo{letter}.py', f'{dst}/demo.py')
# demos refer to their worktree only through PYTHONPATH; keep the author's notes as they are
if os.path.exists(f'{src}/notes.md'):
    shutil.copy(f'{src}/notes.md', f'{dst}/notes_from_author.md')
head = subprocess.run(['git', '-C', '/repo', 'rev-parse', '--short', 'HEAD'], capture_output=True, text=True).stdout.strip()
out = subprocess.run([os.path.join(ROOT, 'tools_eval_mutant.sh'), dst, 'patch.diff', 'demo.py', prop] + extra,
                     capture_output=True, text=True).stdout
print(out)
res = next((l for l in out.splitlines() if l.startswith('RESULT')), '')
caught, detail = [], {}
for line in out.splitlines():
    if line.startswith('CHECK '):
        parts = line.split()
        if int(parts[2].split('=')[1]) > 0:
            caught.append(parts[1]); detail[parts[1]] = ' '.join(parts[4:])[:200]
import re
tests = re.search(r"tests='([^']*)'", res)
meta = {
    'id': nid, 'property': prop, 'title': slug.replace('-', ' '), 'round': int(rnd),
    'origin': f'independent sub-agent (round {rnd}), given only the property text and its own scratch worktree of /repo (HEAD {head})',
    'needs_to_manifest': f'see notes_from_author.md (section for change {letter})',
    'confirmed': {
        'patch_applies_to_repo_head': 'patch_applies=yes' in res,
        'test_suite_with_patch': tests.group(1) if tests else None,
        'demo_exit_without_patch': int(re.search(r'demo_without=(\d+)', res).group(1)) if 'demo_without' in res else None,
        'demo_exit_with_patch': int(re.search(r'demo_with=(\d+)', res).group(1)) if 'demo_with=' in res else None,
        'how': 'tools_eval_mutant.sh (scratch copy of /repo HEAD, patch -p1, pytest, demo with and without, ./check with PJPLAN_SRC)',
    },
    'caught_by': caught, 'first_violation': detail, 'strengthening': '',
}
json.dump(meta, open(f'{dst}/meta.json', 'w'), indent=1)
print('META', nid, 'caught_by', caught)
