"""prints the markdown table of DESIGN.md section 15 from seeded/*/meta.json"""
import json, os
ROOT = os.path.dirname(os.path.abspath(__file__))
rows = []
for d in sorted(os.listdir(os.path.join(ROOT, 'seeded'))):
    mp = os.path.join(ROOT, 'seeded', d, 'meta.json')
    if os.path.exists(mp):
        m = json.load(open(mp))
        rows.append((m['id'], m['property'], m['title'], m.get('summary', ''), ', '.join(m.get('caught_by', [])) or 'NOT CAUGHT',
                     m.get('strengthening', '')))
print('| Id | Breaks | Change | Caught by (quick tier) | Strengthening it prompted |')
print('|---|---|---|---|---|')
for r in rows:
    print(f'| {r[0]} | {r[1]} | {r[2]}{": " + r[3] if r[3] else ""} | {r[4]} | {r[5]} |')
