"""regenerates MANIFEST.json (run by hand after changing the set of checks)"""
import json
BASE = "cd /repo && /venv/bin/python -m pytest -q -p no:cacheprovider --timeout=900 --continue-on-collection-errors"
G = ("Seeded deterministic simulation of operation-and-fault histories (simulated clients holding fresh and stale list handles, every "
     "rejection class, failing / one-shot iterators and predicates, removal and re-attachment, clone/subtree replicas) against the real "
     "task/WBS code; after every step a full public-getter snapshot is judged by structural invariants, the rejected-call oracle and an "
     "independent reference model of the documented effect. Sampling by seed, not proof.")
S = ("Seeded deterministic simulation of calc histories: the wall clock behind every datetime.now() in pjplan is simulated (frozen, ticking, "
     "jumping over midnight, stepping back), resources are the real Resource over composed calendars or the SimResource peer with a call log "
     "and injected failures, schedulers are reused / recreated / interleaved; every result is judged against oracles computed from the "
     "scenario by independent code. Sampling by seed, not proof.")
TEXT = {
 'C01': G, 'C05': G, 'C10': G, 'C11': G, 'C15': G, 'C16': G,
 'C02': S, 'C03': S, 'C04': S, 'C06': S, 'C07': S, 'C08': S, 'C14': S,
 'C09': S + " THIN FIT: with an explicit deadline the backward scheduler reads no clock (a probe asserts zero reads under a hostile clock); the simulator-owned inputs are the default deadline and the resource peer, so this check is effectively seeded scenario exploration inside the simulator.",
 'C13': "Seeded deterministic simulation of write_csv/read_csv over a simulated file system: the real TextIOWrapper/Buffered*/csv stack runs on a simulated raw device with seeded short reads and short writes (splitting multi-byte characters, CRLF, quoted fields), pre-existing hand-written / earlier-version files, and EIO/ENOSPC injected at seeded offsets with a narrowly relaxed oracle. Sampling by seed, not proof.",
 'C19': "Seeded simulation of the three renderers under a simulated clock (they read datetime.now() per task) over WBSs scheduled by the real scheduler and decorated with adversarial names; output is parsed by the simulator. SECOND-WEAKEST FIT: the clock only influences done/active/progress; most of the property is a function of the WBS. Sampling by seed, not proof.",
}
NOTE = {
 'graph': "Trusted: sim/*.py, CPython. Bounds: quick <=12 initial tasks (+ copies), <=3 WBS (+ copies), <=40 operations per run; thorough <=16 tasks, <=60 operations; custom attribute values immutable; no threads (no property mentions them). Known findings listed in known_findings.txt are reported as KNOWN-FINDING and their argument shapes are not generated in bulk.",
 'sched': "Trusted: sim/*.py, CPython, the calendar classes (C17 is not applicable to this technique; capacity of a day is what the resource object answers). Bounds: quick <=10 tasks, depth <=3 (thorough <=14 tasks, depth <=4), <=3 supplied resources, <=8 calc/edit steps per scenario, dates 2012-2026. Clauses relating values from different clock reads are judged only when all reads fall on one day or none is later than the project start.",
 'csv': "Trusted: sim/*.py, CPython io and csv modules. Bounds: <=10 tasks, <=3 custom columns. Torn files after a failed write are not judged (no durability claim exists).",
 'render': "Trusted: sim/*.py and its text-level parsers; no browser / Mermaid / DHTMLX runtime exists in the sandbox, so only the text structure is judged. Bounds: <=10 tasks.",
}
ENG = {'C01':'graph','C05':'graph','C10':'graph','C11':'graph','C15':'graph','C16':'graph',
       'C02':'sched','C03':'sched','C04':'sched','C06':'sched','C07':'sched','C08':'sched','C09':'sched','C14':'sched',
       'C13':'csv','C19':'render'}
TECH = {
 'graph': 'deterministic simulation with fault injection: seeded operation/fault histories over shared mutable graph state (stale handles, rejections, failing iterators) + reference model + invariants after every step',
 'sched': 'deterministic simulation with fault injection: simulated wall clock (frozen/tick/jump/step-back), resource peer with call log and injected failures, calc histories on reused/fresh schedulers; seeded search + shrinking + replay',
 'csv': 'deterministic simulation with fault injection: simulated file system / raw device (short reads and writes, EIO, ENOSPC, pre-existing files) under the real text I/O stack; seeded search + shrinking + replay',
 'render': 'deterministic simulation: simulated wall clock under the renderers, scheduler-produced WBS, adversarial names; seeded search + shrinking + replay',
}
checks = []
for p in sorted(ENG):
    e = ENG[p]
    checks.append({
        'property_id': p, 'quick_cmd': f'./check {p} --tier quick', 'thorough_cmd': f'./check {p} --tier thorough',
        'evidence_file': f'evidence/{p}.json', 'replay_cmd_template': f'./check {p} --replay {{path}}', 'engine': e,
        'level_claimed': {'category': 'exploration', 'text': TEXT[p], 'design_ref': f'DESIGN.md section 4 ({p})'},
        'level_note': NOTE[e], 'technique': TECH[e]})
m = {
 'version': 1,
 'setup_cmd': "/venv/bin/python -c \"import sys; assert sys.version_info >= (3, 10)\" && mkdir -p evidence replays",
 'hooks': {'guard': 'PJPLAN_VERIF',
           'enable': 'no source hook exists: every seam (datetime.now in each pjplan module, csv_io.open, schedule.Resource, IResource, list handles) is reached by rebinding module globals in-process; the guard name is reserved and unused',
           'baseline_off_cmd': BASE, 'source_commits': [], 'add_only': True},
 'engines': [
  {'name': 'graph', 'path': 'sim/gmachine.py', 'serves_properties': ['C01', 'C05', 'C10', 'C11', 'C15', 'C16'], 'kind_free_text': 'seeded history simulation of the task/WBS mutation API with a reference model (gworld/gmodel/ggen)'},
  {'name': 'sched', 'path': 'sim/smachine.py', 'serves_properties': ['C02', 'C03', 'C04', 'C06', 'C07', 'C08', 'C09', 'C14'], 'kind_free_text': 'simulated clock + resource peers + calc histories (sworld/soracle/sgen)'},
  {'name': 'csv', 'path': 'sim/cmachine.py', 'serves_properties': ['C13'], 'kind_free_text': 'simulated file system under the real text I/O stack'},
  {'name': 'render', 'path': 'sim/rmachine.py', 'serves_properties': ['C19'], 'kind_free_text': 'renderers under the simulated clock'},
 ],
 'checks': checks,
 'not_applicable': [
  {'property_id': 'C12', 'reason': 'critical_path is a pure function of the WBS value: no clock, I/O, callback, shared state or history for a simulator to own; deciding it needs input generation against a longest-path oracle, which is a different technique'},
  {'property_id': 'C17', 'reason': 'calendars are immutable expressions evaluated at a date and the availability search is a bounded loop over them: no seam the simulator owns (the calendar code still runs for real inside the schedule machine, where it is trusted)'},
  {'property_id': 'C18', 'reason': 'filter evaluation is a pure function of (list, attribute population, filters); its mutating clauses (remove_all, bulk assignment through a query) are exercised as operations of the graph machine and judged there under C11/C15/C16'},
  {'property_id': 'C20', 'reason': 'pure string formatting; its only nondeterminism (usage-table column order follows set iteration over address-hashed resources) is not constrained by the statement'},
 ],
 'notes': 'See DESIGN.md. ./check <Cxx> --tier quick|thorough [--runs N] [--replay file]; exit 0 ok, 1 VIOLATION, 2 HARNESS-ERROR. ./check selftest-determinism and selftest-sensitivity are development-time self-tests. known_findings.txt lists known: and fixed: entries; findings/ holds their canonical replays.',
}
json.dump(m, open('/verif/MANIFEST.json', 'w'), indent=1)
print('ok', len(checks))
